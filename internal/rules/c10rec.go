package rules

import (
	"fmt"
	"go/ast"
	"go/token"
	"go/types"
	"os"
	"sort"
	"strings"

	"golang.org/x/tools/go/ssa"

	"verif/internal/core"
)

// crashRec: recursion over possibly cyclic schema/document graphs must make progress.
func crashRec(r *core.Report, cs *crashScope, extra func(site ssa.CallInstruction, callee *ssa.Function) string, cyclic func(t types.Type) bool) {
	compAxiom := compositionAcyclic(r.Prog)
	p := r.Prog
	r.RunRule(cs.id+".rec", "recursion makes progress: for every call edge inside a cycle of the call graph (reachable repo functions) whose callee takes a *Schema/*SchemaRef (a possibly cyclic graph — document validation accepts recursive schemas), either an instance argument (the value, string or map being traversed) is a strict sub-component of the caller's (element of a range, index, map lookup, slice, struct field of an element), or the call is dominated by a visited-set/stack/depth test; an edge that re-passes the same instance with a sub-schema and no guard recurses forever on a cyclic schema", 3, func() {
		cg := p.CallGraph()
		// SCCs over reachable repo functions
		idx := map[*ssa.Function]int{}
		low := map[*ssa.Function]int{}
		on := map[*ssa.Function]bool{}
		var stack []*ssa.Function
		comp := map[*ssa.Function]int{}
		ncomp := 0
		counter := 0
		succ := func(f *ssa.Function) []*ssa.Function {
			var out []*ssa.Function
			if n := cg.Nodes[f]; n != nil {
				for _, e := range n.Out {
					if cs.reach[e.Callee.Func] {
						out = append(out, e.Callee.Func)
					}
				}
			}
			for _, a := range f.AnonFuncs {
				if cs.reach[a] {
					out = append(out, a)
				}
			}
			return out
		}
		var strong func(v *ssa.Function)
		strong = func(v *ssa.Function) {
			counter++
			idx[v], low[v] = counter, counter
			stack = append(stack, v)
			on[v] = true
			for _, w := range succ(v) {
				if idx[w] == 0 {
					strong(w)
					if low[w] < low[v] {
						low[v] = low[w]
					}
				} else if on[w] && idx[w] < low[v] {
					low[v] = idx[w]
				}
			}
			if low[v] == idx[v] {
				ncomp++
				for {
					w := stack[len(stack)-1]
					stack = stack[:len(stack)-1]
					on[w] = false
					comp[w] = ncomp
					if w == v {
						break
					}
				}
			}
		}
		for _, f := range cs.funcs {
			if idx[f] == 0 {
				strong(f)
			}
		}
		size := map[int]int{}
		for _, c := range comp {
			size[c]++
		}
		var isSchemaPtr func(t types.Type) bool
		isSchemaPtr = func(t types.Type) bool {
			if cyclic != nil {
				return cyclic(t)
			}
			if sl, ok := t.(*types.Slice); ok {
				return isSchemaPtr(sl.Elem())
			}
			n := core.NamedOf(t)
			if n == nil || !core.InRepo(n.Obj().Pkg()) {
				return false
			}
			switch n.Obj().Name() {
			case "Schema", "SchemaRef":
				_, isPtr := t.Underlying().(*types.Pointer)
				return isPtr
			case "SchemaRefs", "Schemas":
				return true
			}
			return false
		}
		seen := map[string]bool{}
		var keys []string
		type edge struct {
			key, pos, detail string
			ok               bool
			f, g             *ssa.Function
		}
		var edges []edge
		type pair struct{ f, g *ssa.Function }
		open := map[pair]bool{}  // the pair has a call that is not guarded (skipped helper call or bad edge)
		inSCC := map[pair]bool{} // call pairs inside a cycle
		for _, f := range cs.funcs {
			n := cg.Nodes[f]
			if n == nil {
				continue
			}
			for _, e := range n.Out {
				g := e.Callee.Func
				if os.Getenv("KINLINT_DEBUG") != "" && (strings.Contains(f.Name(), "decodeSchemaConstructs") || strings.Contains(f.String(), "Operation).Validate")) {
					fmt.Println("EDGE", f.Name(), "->", g.Name(), cs.reach[g], comp[f], comp[g], e.Site != nil, size[comp[f]])
				}
				if !cs.reach[g] || comp[f] != comp[g] || e.Site == nil {
					continue
				}
				if size[comp[f]] == 1 && f != g {
					continue
				}
				if f != g && size[comp[f]] < 2 {
					continue
				}
				inSCC[pair{f, g}] = true
				// callee takes a schema?
				takes := false
				for _, prm := range g.Params {
					if isSchemaPtr(prm.Type()) {
						takes = true
					}
				}
				if !takes {
					if guardedByVisited(e.Site) == "" {
						open[pair{f, g}] = true
					}
					continue
				}
				// which schema field does the schema argument come from (for the key)
				c := e.Site.Common()
				var args []ssa.Value
				if c.IsInvoke() {
					args = append(args, c.Value)
				}
				args = append(args, c.Args...)
				field := ""
				progress := ""
				for i, a := range args {
					if i >= len(g.Params) {
						break
					}
					pt := g.Params[i].Type()
					if isSchemaPtr(pt) {
						if fld := schemaFieldOf(a, 0); fld != "" && field == "" {
							field = fld
						}
						continue
					}
					if !instanceType(pt) {
						continue
					}
					if w := subComponentOfParam(a, 0); w != "" {
						progress = fmt.Sprintf("argument %d (%s) is %s", i, g.Params[i].Name(), w)
					}
				}
				// helper calls that pass the caller's own schema on (no descent), and list elements of a
				// schema-list parameter (the descent is the edge that passed the list), are not descents
				if os.Getenv("KINLINT_DEBUG") != "" && strings.Contains(f.String(), "Operation).Validate") {
					fmt.Println("FIELD", shortFn(f), "->", shortFn(g), "field=", field, "progress=", progress)
				}
				if field == "" || strings.HasPrefix(field, "param:") {
					if guardedByVisited(e.Site) == "" {
						open[pair{f, g}] = true
					}
					continue
				}
				key := fmt.Sprintf("rec:%s->%s(%s)", shortFn(f), shortFn(g), field)
				if seen[key] {
					continue
				}
				seen[key] = true
				keys = append(keys, key)
				if progress == "" {
					if w := guardedByVisited(e.Site); w != "" {
						progress = w
					}
				}
				if progress == "" {
					if w := instanceProbed(e.Site); w != "" {
						progress = w
					}
				}
				if progress == "" && extra != nil {
					progress = extra(e.Site, g)
				}
				// the composition invariant helps only traversals that carry an instance (a value being
				// checked or decoded): their other descents consume part of it. Document validation has no
				// instance and must rely on its own visited chain.
				hasInstance := false
				for _, prm := range g.Params {
					if carriesData(prm.Type()) {
						hasInstance = true
					}
				}
				if progress == "" && compAxiom != "" && hasInstance {
					comp := true
					for _, part := range strings.Split(field, "|") {
						switch part {
						case "Schema.AllOf", "Schema.AnyOf", "Schema.OneOf", "Schema.Not":
						default:
							comp = false
						}
					}
					if comp {
						progress = compAxiom
					}
				}
				if progress != "" {
					edges = append(edges, edge{key, p.Pos(e.Site.Pos()), progress, true, f, g})
				} else {
					open[pair{f, g}] = true
					edges = append(edges, edge{key, p.Pos(e.Site.Pos()), "recursive call re-passes the same instance with a sub-schema and no visited/depth guard: a schema that reaches itself through `" + field + "` (accepted by document validation) recurses until the stack overflows", false, f, g})
				}
			}
		}
		// an unguarded descent is harmless when every cycle through it passes a guarded call: look for a
		// way back from the callee to the caller over call pairs that still have an unguarded call
		for i := range edges {
			e := &edges[i]
			if e.ok {
				continue
			}
			seenF := map[*ssa.Function]bool{e.g: true}
			work := []*ssa.Function{e.g}
			back := e.g == e.f
			for len(work) > 0 && !back {
				x := work[0]
				work = work[1:]
				if n := cg.Nodes[x]; n != nil {
					for _, oe := range n.Out {
						y := oe.Callee.Func
						if !inSCC[pair{x, y}] || !open[pair{x, y}] {
							continue
						}
						if y == e.f {
							back = true
							break
						}
						if !seenF[y] {
							seenF[y] = true
							work = append(work, y)
						}
					}
				}
			}
			if !back {
				e.ok = true
				e.detail = "no guard at this call, but every call cycle through it passes a call that is guarded (visited set, resolved-or-in-progress test, or progress on the instance)"
			}
		}
		// the "progress on the instance" argument assumes the instance only shrinks on the way down.
		// A function of a recursive cycle that writes schema-derived data INTO the instance (a default
		// for an absent property) can re-create, level after level, exactly what the next level
		// descends into.
		for _, f := range cs.funcs {
			if cs.id != "C10" {
				// defaults are written only under a DefaultsSet callback, which only request/response
				// validation installs; document validation (C20's scope) passes none (C13.alias)
				break
			}
			inCycle := size[comp[f]] > 1
			if n := cg.Nodes[f]; n != nil && !inCycle {
				for _, e := range n.Out {
					if e.Callee.Func == f {
						inCycle = true
					}
				}
			}
			if !inCycle {
				continue
			}
			takesSchema := false
			for _, prm := range f.Params {
				if isSchemaPtr(prm.Type()) {
					takesSchema = true
				}
			}
			if !takesSchema {
				continue
			}
			k := 0
			for _, prm := range f.Params {
				if _, isMap := prm.Type().Underlying().(*types.Map); !isMap || !carriesData(prm.Type()) {
					continue
				}
				// the parameter is the instance the recursion consumes: some call inside the cycle is
				// given a proper part of it (an accumulator that is only passed on whole is not)
				descends := false
				if n := cg.Nodes[f]; n != nil {
					for _, e := range n.Out {
						if e.Site == nil || comp[e.Callee.Func] != comp[f] {
							continue
						}
						for _, a := range e.Site.Common().Args {
							if a != ssa.Value(prm) && derivesFromValue(a, prm, 0, map[ssa.Value]bool{}) {
								descends = true
							}
						}
					}
				}
				if !descends {
					continue
				}
				for _, b := range f.Blocks {
					for _, in := range b.Instrs {
						mu, ok := in.(*ssa.MapUpdate)
						if !ok || mu.Map != ssa.Value(prm) {
							continue
						}
						if derivesFromValue(mu.Value, prm, 0, map[ssa.Value]bool{}) {
							continue
						}
						k++
						key := fmt.Sprintf("rec:grow:%s#%d", shortFn(f), k)
						edges = append(edges, edge{key, p.Pos(mu.Pos()), fmt.Sprintf("%s, part of a recursive cycle over the schema graph, stores a value that does not come from the instance into the instance it is validating (parameter %s): when the stored value (a default) makes the next level store it again — a recursive schema whose default leaves the recursive property out, e.g. Node{default: {}, properties: {child: $ref Node}} — the descent never ends and the goroutine's stack overflows", shortFn(f), prm.Name()), false, f, f})
					}
				}
			}
		}
		// a walk over a shared graph (schemas are shared through $ref: a DAG, not a tree) that only
		// knows the objects on its current path visits a shared sub-graph once per path to it
		for _, f := range cs.funcs {
			var self []ssa.CallInstruction
			pathGuard := ""
			for _, b := range f.Blocks {
				for _, in := range b.Instrs {
					ci, ok := in.(ssa.CallInstruction)
					if !ok || ci.Common().StaticCallee() != f {
						continue
					}
					self = append(self, ci)
					if g := stackScanGuard(ci); g != "" {
						pathGuard = g
					}
				}
			}
			if pathGuard == "" {
				continue
			}
			branching := len(self) >= 2
			for _, ci := range self {
				if blockInLoop(ci.Block()) {
					branching = true
				}
			}
			if !branching {
				continue
			}
			memo, dropped := "", ""
			// the chain is handed back (what one branch saw, the next one knows)
			res := f.Signature.Results()
			for i := 0; i < res.Len(); i++ {
				if _, isSlice := res.At(i).Type().Underlying().(*types.Slice); isSlice {
					memo = "the chain is returned and passed on: it is a visited list, not a path"
					// ... at every recursive call: a call that drops the returned chain forgets what
					// was seen below it
					for _, ci := range self {
						v := ci.Value()
						used := false
						if v != nil && v.Referrers() != nil {
							for _, ref := range *v.Referrers() {
								if ex, ok := ref.(*ssa.Extract); ok && ex.Index == i && ex.Referrers() != nil && len(*ex.Referrers()) > 0 {
									used = true
								}
							}
						}
						if !used {
							memo = ""
							dropped = p.Pos(ci.Pos())
						}
					}
				}
			}
			// a set that is written and never emptied
			for _, prm := range f.Params {
				if _, isMap := prm.Type().Underlying().(*types.Map); isMap {
					for _, b := range f.Blocks {
						for _, in := range b.Instrs {
							if mu, ok := in.(*ssa.MapUpdate); ok && mu.Map == ssa.Value(prm) {
								memo = "records what it has been through in the set `" + prm.Name() + "`"
							}
						}
					}
				}
			}
			key := "rec:diamond:" + shortFn(f)
			if memo != "" {
				edges = append(edges, edge{key, p.Pos(f.Pos()), memo, true, f, f})
			} else {
				if dropped != "" {
					edges = append(edges, edge{key, dropped, fmt.Sprintf("%s hands the chain of visited objects back to its caller, but the recursive call at %s drops what it returns: everything visited below that call is forgotten, an object shared with a sibling is walked again, and a ladder of n levels reached two ways each takes 2^n steps", shortFn(f), dropped), false, f, f})
					continue
				}
				edges = append(edges, edge{key, p.Pos(f.Pos()), fmt.Sprintf("%s descends into several sub-objects per call and protects itself only with the chain of objects on the current path: an object shared by two sub-objects (schemas are shared through $ref) is walked once per way of reaching it, so a chain of n levels with two references each takes 2^n steps (n = 40 does not end) on a document that is small and valid", shortFn(f)), false, f, f})
			}
		}
		sort.Slice(edges, func(i, j int) bool { return edges[i].key < edges[j].key })
		for _, e := range edges {
			if os.Getenv("KINLINT_DEBUG") != "" {
				fmt.Println("REC", e.ok, e.key, e.detail)
			}
			if e.ok {
				r.OK(e.key, e.pos, e.detail)
			} else {
				r.Bad(e.key, e.pos, e.detail)
			}
		}
		r.Extra[cs.id+"_recursive_edges"] = len(edges)
	})
}

// blockInLoop: the block can reach itself.
func blockInLoop(b *ssa.BasicBlock) bool {
	for _, s := range b.Succs {
		if s == b || reaches(s, b) {
			return true
		}
	}
	return false
}

// instanceProbed: the recursive call is dominated by the success edge of a comma-ok assertion (to a
// map or slice) of a value fetched from the instance at the current key path (deepGet): the key path
// grows by one on every level and the function returns before recursing when the instance has no
// container there, so the depth is bounded by the depth of the instance.
func instanceProbed(site ssa.CallInstruction) string {
	fn := site.Parent()
	for _, b := range fn.Blocks {
		for _, in := range b.Instrs {
			ta, ok := in.(*ssa.TypeAssert)
			if !ok || !ta.CommaOk {
				continue
			}
			switch ta.AssertedType.Underlying().(type) {
			case *types.Map, *types.Slice:
			default:
				continue
			}
			ex, ok := ta.X.(*ssa.Extract)
			if !ok {
				continue
			}
			call, ok := ex.Tuple.(*ssa.Call)
			if !ok || call.Common().StaticCallee() == nil || call.Common().StaticCallee().Name() != "deepGet" {
				continue
			}
			for _, ref := range *ta.Referrers() {
				if okv, ok := ref.(*ssa.Extract); ok && okv.Index == 1 && boolEdgeDominates(okv, true, site.Block()) {
					// ... and the key path handed down is longer than the one received, on every path
					// (a key appended only `if key != ""` re-enters the same path for an empty key)
					grown, any := true, false
					for _, a := range site.Common().Args {
						if sl, isSlice := a.Type().Underlying().(*types.Slice); isSlice {
							if b, isB := sl.Elem().Underlying().(*types.Basic); isB && b.Kind() == types.String {
								any = true
								if !pathGrows(a, 0) {
									grown = false
								}
							}
						}
					}
					if any && grown {
						return "dominated by a successful probe of the instance at the current key path (deepGet + container assertion); the key path handed down is an append to the one received, on every path"
					}
				}
			}
		}
	}
	return ""
}

// pathGrows: the value is the result of append (to anything), directly, through a closure of the
// function that returns one, or on every edge of a phi.
func pathGrows(v ssa.Value, depth int) bool {
	if depth > 4 {
		return false
	}
	switch x := v.(type) {
	case *ssa.Call:
		if b, ok := x.Common().Value.(*ssa.Builtin); ok {
			return b.Name() == "append" && len(x.Common().Args) == 2
		}
		var fn *ssa.Function
		switch c := x.Common().Value.(type) {
		case *ssa.MakeClosure:
			fn, _ = c.Fn.(*ssa.Function)
		case *ssa.Function:
			fn = c
		}
		if fn == nil || fn.Parent() == nil || fn.Blocks == nil {
			return false
		}
		rets := 0
		for _, b := range fn.Blocks {
			if ret, ok := b.Instrs[len(b.Instrs)-1].(*ssa.Return); ok {
				rets++
				if len(ret.Results) != 1 || !pathGrows(ret.Results[0], depth+1) {
					return false
				}
			}
		}
		return rets > 0
	case *ssa.Phi:
		for _, e := range x.Edges {
			if !pathGrows(e, depth+1) {
				return false
			}
		}
		return true
	}
	return false
}

// instanceType: a type that can be the traversed instance (any, string, map, slice of any/strings).
func instanceType(t types.Type) bool {
	switch u := t.Underlying().(type) {
	case *types.Interface:
		return u.Empty() || t.String() == "io.Reader"
	case *types.Basic:
		return u.Info()&types.IsString != 0
	case *types.Map:
		return true
	case *types.Slice:
		return true
	}
	return false
}

// subComponentOfParam: v is derived from a parameter (or free variable) of its function through at
// least one element access / slicing step.
func subComponentOfParam(v ssa.Value, depth int) string {
	if depth > 8 {
		return ""
	}
	switch x := v.(type) {
	case *ssa.Extract:
		if _, ok := x.Tuple.(*ssa.Next); ok && x.Index == 2 {
			return "an element of a range"
		}
		if c, ok := x.Tuple.(*ssa.Call); ok {
			if sc := c.Common().StaticCallee(); sc != nil && sc.String() == "(*mime/multipart.Reader).NextPart" {
				return "a part of the multipart body"
			}
		}
		if lk, ok := x.Tuple.(*ssa.Lookup); ok {
			_ = lk
			return "a map element"
		}
		if ta, ok := x.Tuple.(*ssa.TypeAssert); ok {
			return subComponentOfParam(ta.X, depth+1)
		}
	case *ssa.Lookup:
		return "a map element"
	case *ssa.Index:
		return "an indexed element"
	case *ssa.UnOp:
		if ia, ok := x.X.(*ssa.IndexAddr); ok {
			_ = ia
			return "an indexed element"
		}
	case *ssa.Slice:
		if x.Low != nil || x.High != nil {
			return "a sub-slice"
		}
		return subComponentOfParam(x.X, depth+1)
	case *ssa.MakeInterface:
		return subComponentOfParam(x.X, depth+1)
	case *ssa.ChangeType:
		return subComponentOfParam(x.X, depth+1)
	case *ssa.TypeAssert:
		return subComponentOfParam(x.X, depth+1)
	case *ssa.Phi:
		// all edges must be sub-components
		w := ""
		for _, e := range x.Edges {
			s := subComponentOfParam(e, depth+1)
			if s == "" {
				return ""
			}
			w = s
		}
		return w
	case *ssa.Call:
		// strings functions that return a strict part are not recognised; be conservative
		return ""
	}
	return ""
}

// schemaFieldOf: which Schema field the argument was loaded from (for reporting).
func schemaFieldOf(v ssa.Value, depth int) string {
	if depth > 8 {
		return ""
	}
	switch x := v.(type) {
	case *ssa.UnOp:
		if fa, ok := x.X.(*ssa.FieldAddr); ok {
			own, f := fieldNames(fa.X.Type(), fa.Field)
			if f == "Value" || f == "Schema" {
				if s := schemaFieldOf(fa.X, depth+1); s != "" {
					return s
				}
			}
			return own + "." + f
		}
		if ia, ok := x.X.(*ssa.IndexAddr); ok {
			return schemaFieldOf(ia.X, depth+1)
		}
		return schemaFieldOf(x.X, depth+1)
	case *ssa.Extract:
		return schemaFieldOf(x.Tuple, depth+1)
	case *ssa.Next:
		return schemaFieldOf(x.Iter, depth+1)
	case *ssa.Range:
		return schemaFieldOf(x.X, depth+1)
	case *ssa.Lookup:
		return schemaFieldOf(x.X, depth+1)
	case *ssa.Index:
		return schemaFieldOf(x.X, depth+1)
	case *ssa.FieldAddr:
		own, f := fieldNames(x.X.Type(), x.Field)
		return own + "." + f
	case *ssa.Field:
		own, f := fieldNames(x.X.Type(), x.Field)
		return own + "." + f
	case *ssa.Phi:
		var parts []string
		for _, e := range x.Edges {
			if s := schemaFieldOf(e, depth+1); s != "" {
				parts = append(parts, s)
			}
		}
		sort.Strings(parts)
		return strings.Join(uniq(parts), "|")
	case *ssa.Parameter:
		return "param:" + x.Name()
	case *ssa.MakeInterface:
		return schemaFieldOf(x.X, depth+1)
	case *ssa.ChangeType:
		return schemaFieldOf(x.X, depth+1)
	case *ssa.Convert:
		return schemaFieldOf(x.X, depth+1)
	case *ssa.Slice:
		return schemaFieldOf(x.X, depth+1)
	}
	return ""
}

func uniq(s []string) []string {
	var out []string
	for i, x := range s {
		if i == 0 || x != s[i-1] {
			out = append(out, x)
		}
	}
	return out
}

// guardedByVisited: the call is dominated by a test that involves a visited set, a stack scan or a
// depth/length comparison whose failing branch leaves the function: recognised forms are a map
// lookup `_, ok := visited[k]` tested before the call, a loop over a stack parameter comparing each
// entry with the schema, and a call to a function named *visit*/*Visited* whose bool result is tested.
func guardedByVisited(site ssa.CallInstruction) string {
	fn := site.Parent()
	blk := site.Block()
	if w := stackScanGuard(site); w != "" {
		return w
	}
	for _, b := range fn.Blocks {
		if !b.Dominates(blk) || b == blk && false {
			continue
		}
		ifi, ok := b.Instrs[len(b.Instrs)-1].(*ssa.If)
		if !ok {
			continue
		}
		// one successor leaves (return) without reaching the site, the other dominates the site
		for si, s := range b.Succs {
			other := b.Succs[1-si]
			if !(s.Dominates(blk) || s == blk) {
				continue
			}
			if reachesAvoiding(other, blk, b) {
				continue // the call is reached again without another test (not a `continue` to the next element)
			}
			// the condition depends on a map lookup / visited call / pointer equality scan
			if w := visitedCond(ifi.Cond, 0); w != "" {
				return "dominated by a " + w + " test whose other branch leaves the function"
			}
		}
	}
	return ""
}

// reachesAvoiding: is there a path from a to b that does not pass through avoid?
func reachesAvoiding(a, b, avoid *ssa.BasicBlock) bool {
	if a == avoid {
		return false
	}
	seen := map[*ssa.BasicBlock]bool{a: true}
	work := []*ssa.BasicBlock{a}
	for len(work) > 0 {
		x := work[0]
		work = work[1:]
		if x == b {
			return true
		}
		for _, s := range x.Succs {
			if s != avoid && !seen[s] {
				seen[s] = true
				work = append(work, s)
			}
		}
	}
	return false
}

func visitedCond(v ssa.Value, depth int) string {
	if depth > 5 {
		return ""
	}
	switch x := v.(type) {
	case *ssa.Extract:
		if lk, ok := x.Tuple.(*ssa.Lookup); ok && lk.CommaOk {
			return "visited-set lookup"
		}
		if c, ok := x.Tuple.(*ssa.Call); ok {
			return visitedCond(c, depth+1)
		}
	case *ssa.Call:
		if sc := x.Common().StaticCallee(); sc != nil {
			n := strings.ToLower(sc.Name())
			if strings.Contains(n, "visited") || strings.Contains(n, "seen") || strings.HasPrefix(n, "shouldvisit") {
				return "visited-set (" + sc.Name() + ")"
			}
		}
	case *ssa.UnOp:
		return visitedCond(x.X, depth+1)
	case *ssa.BinOp:
		if w := visitedCond(x.X, depth+1); w != "" {
			return w
		}
		return visitedCond(x.Y, depth+1)
	case *ssa.Phi:
		for _, e := range x.Edges {
			if w := visitedCond(e, depth+1); w != "" {
				return w
			}
		}
	}
	return ""
}

// stackScanGuard: the function scans a slice parameter (the chain of objects being processed),
// compares every entry with one of its pointer parameters (usually the receiver) and returns on
// equality; the scanned slice, extended by that pointer, is what the recursive call receives. Every
// call after the scan is then guarded: re-entering an object already on the chain returns at once.
func stackScanGuard(site ssa.CallInstruction) string {
	fn := site.Parent()
	for _, b := range fn.Blocks {
		ifi, ok := b.Instrs[len(b.Instrs)-1].(*ssa.If)
		if !ok {
			continue
		}
		bo, ok := ifi.Cond.(*ssa.BinOp)
		if !ok || bo.Op.String() != "==" {
			continue
		}
		var elem ssa.Value
		var prm *ssa.Parameter
		for _, pair := range [][2]ssa.Value{{bo.X, bo.Y}, {bo.Y, bo.X}} {
			if q, ok := pair[1].(*ssa.Parameter); ok {
				if _, isPtr := q.Type().Underlying().(*types.Pointer); isPtr {
					elem, prm = pair[0], q
				}
			}
		}
		if prm == nil {
			continue
		}
		// elem is an element of a slice parameter (range lowered to index loop: *IndexAddr(param, i))
		var stackPrm *ssa.Parameter
		if u, ok := elem.(*ssa.UnOp); ok {
			if ia, ok := u.X.(*ssa.IndexAddr); ok {
				if q, ok := ia.X.(*ssa.Parameter); ok {
					stackPrm = q
				}
			}
		}
		if stackPrm == nil {
			continue
		}
		// equality edge returns
		t := b.Succs[0]
		if len(t.Instrs) == 0 {
			continue
		}
		if _, isRet := t.Instrs[len(t.Instrs)-1].(*ssa.Return); !isRet {
			continue
		}
		// the site comes after the scan loop: the loop header dominates the site and the site is not
		// inside the loop (cannot reach the comparison block again without leaving the function)
		if !b.Dominates(site.Block()) && !reaches(b, site.Block()) {
			continue
		}
		if reaches(site.Block(), b) {
			continue
		}
		// the recursive call passes a slice derived from append(stackPrm, prm)
		for _, a := range site.Common().Args {
			if derivesFromAppendOf(a, stackPrm, prm, 0) {
				return "guarded by a scan of the chain parameter `" + stackPrm.Name() + "` for `" + prm.Name() + "` (returns on re-entry); the call passes the extended chain"
			}
		}
	}
	return ""
}

func derivesFromAppendOf(v ssa.Value, stack, elem *ssa.Parameter, depth int) bool {
	if depth > 6 {
		return false
	}
	switch x := v.(type) {
	case *ssa.Call:
		if b, ok := x.Common().Value.(*ssa.Builtin); ok && b.Name() == "append" {
			args := x.Common().Args
			if len(args) == 2 && (args[0] == ssa.Value(stack) || derivesFromAppendOf(args[0], stack, elem, depth+1)) {
				return true
			}
		}
	case *ssa.Phi:
		for _, e := range x.Edges {
			if derivesFromAppendOf(e, stack, elem, depth+1) {
				return true
			}
		}
	case *ssa.Extract:
		// stack returned by a previous recursive call: `stack, err = v.validate(ctx, stack)`
		if c, ok := x.Tuple.(*ssa.Call); ok {
			for _, a := range c.Common().Args {
				if derivesFromAppendOf(a, stack, elem, depth+1) {
					return true
				}
			}
		}
	}
	return false
}

// compositionAcyclic: Schema.validate rejects a schema that is one of its own oneOf/anyOf/allOf/not
// descendants. Verified structurally: validate calls, before any VisitJSON / example check, a method
// whose true result leads to a non-nil error; that method returns true when the receiver is on the
// path it was given, extends the path with the receiver, and recurses over exactly the four
// composition fields. Returns the progress argument for composition edges, "" when not verified.
func compositionAcyclic(p *core.Prog) string {
	pk := p.PkgOpt("openapi3")
	if pk == nil {
		return ""
	}
	info := pk.TypesInfo
	vobj := p.FuncObjOpt("openapi3", "Schema.validate")
	if vobj == nil {
		return ""
	}
	vd := p.Decl(vobj)
	var checker *types.Func
	var checkPos token.Pos
	ast.Inspect(vd.Body, func(n ast.Node) bool {
		ifs, ok := n.(*ast.IfStmt)
		if !ok || checker != nil {
			return true
		}
		c, ok := ast.Unparen(ifs.Cond).(*ast.CallExpr)
		if !ok {
			return true
		}
		callee := core.CalleeOf(info, c)
		if callee == nil || !core.InRepo(callee.Pkg()) {
			return true
		}
		sig := callee.Type().(*types.Signature)
		if sig.Recv() == nil || sig.Results().Len() != 1 {
			return true
		}
		if b, ok := sig.Results().At(0).Type().Underlying().(*types.Basic); !ok || b.Kind() != types.Bool {
			return true
		}
		// the branch returns an error value that is not nil
		if len(ifs.Body.List) != 1 {
			return true
		}
		ret, ok := ifs.Body.List[0].(*ast.ReturnStmt)
		if !ok || len(ret.Results) != 2 || core.IsNil(info, ret.Results[1]) {
			return true
		}
		cd := p.Decl(callee)
		if cd == nil || cd.Body == nil {
			return true
		}
		// the method walks exactly the composition fields and recurses into itself
		fields := map[string]bool{}
		recurses := false
		scans := false
		ast.Inspect(cd.Body, func(m ast.Node) bool {
			switch x := m.(type) {
			case *ast.SelectorExpr:
				if f := core.FieldSel(info, x); f != nil {
					if nn := core.NamedOf(info.TypeOf(x.X)); nn != nil && nn.Obj().Name() == "Schema" {
						fields[f.Name()] = true
					}
				}
			case *ast.CallExpr:
				if core.CalleeOf(info, x) == callee {
					recurses = true
				}
			case *ast.RangeStmt:
				// for _, ancestor := range path { if ancestor == schema { return true } }
				ast.Inspect(x.Body, func(k ast.Node) bool {
					if r2, ok := k.(*ast.ReturnStmt); ok && len(r2.Results) == 1 {
						if v, ok := constBool(info, r2.Results[0]); ok && v {
							scans = true
						}
					}
					return true
				})
			}
			return true
		})
		if recurses && scans && fields["OneOf"] && fields["AnyOf"] && fields["AllOf"] && fields["Not"] && len(fields) == 4 {
			checker = callee
			checkPos = ifs.Pos()
		}
		return true
	})
	if checker == nil {
		return ""
	}
	// the check precedes every value check made by validate (defaults, examples)
	late := true
	ast.Inspect(vd.Body, func(n ast.Node) bool {
		if c, ok := n.(*ast.CallExpr); ok {
			if callee := core.CalleeOf(info, c); callee != nil && (callee.Name() == "VisitJSON" || callee.Name() == "validateExampleValue") && c.Pos() < checkPos {
				late = false
			}
		}
		return true
	})
	if !late {
		return ""
	}
	return "document validation rejects a schema that includes itself through oneOf/anyOf/allOf/not (Schema.validate calls " + checker.Name() + ", verified to scan its path and to follow exactly those four fields): below a validated schema the composition graph is acyclic, so this descent, which keeps the instance, visits each schema at most once before a properties/items edge consumes part of the instance"
}

// carriesData: the type holds decoded data or raw input (any, string, io.Reader, or maps/slices of
// those) -- not options, functions or pieces of the document model.
func carriesData(t types.Type) bool {
	switch u := t.Underlying().(type) {
	case *types.Interface:
		return u.Empty() || t.String() == "io.Reader"
	case *types.Basic:
		return u.Info()&types.IsString != 0
	case *types.Map:
		return carriesData(u.Elem())
	case *types.Slice:
		if b, ok := u.Elem().Underlying().(*types.Basic); ok && b.Kind() == types.Byte {
			return true
		}
		return carriesData(u.Elem())
	}
	return false
}

// derivesFromValue: v is computed from root (loads, lookups, elements, conversions, phis).
func derivesFromValue(v ssa.Value, root ssa.Value, depth int, seen map[ssa.Value]bool) bool {
	if v == root {
		return true
	}
	if depth > 10 || seen[v] {
		return false
	}
	seen[v] = true
	switch x := v.(type) {
	case *ssa.Lookup:
		return derivesFromValue(x.X, root, depth+1, seen)
	case *ssa.Extract:
		return derivesFromValue(x.Tuple, root, depth+1, seen)
	case *ssa.UnOp:
		return derivesFromValue(x.X, root, depth+1, seen)
	case *ssa.IndexAddr:
		return derivesFromValue(x.X, root, depth+1, seen)
	case *ssa.Index:
		return derivesFromValue(x.X, root, depth+1, seen)
	case *ssa.TypeAssert:
		return derivesFromValue(x.X, root, depth+1, seen)
	case *ssa.MakeInterface:
		return derivesFromValue(x.X, root, depth+1, seen)
	case *ssa.ChangeType:
		return derivesFromValue(x.X, root, depth+1, seen)
	case *ssa.Convert:
		return derivesFromValue(x.X, root, depth+1, seen)
	case *ssa.Phi:
		for _, e := range x.Edges {
			if !derivesFromValue(e, root, depth+1, seen) {
				return false
			}
		}
		return len(x.Edges) > 0
	case *ssa.Next:
		return derivesFromValue(x.Iter, root, depth+1, seen)
	case *ssa.Range:
		return derivesFromValue(x.X, root, depth+1, seen)
	}
	return false
}
