package rules

import (
	"fmt"
	"go/ast"
	"go/token"
	"go/types"
	"os"
	"sort"
	"strings"

	"golang.org/x/tools/go/ssa"

	"verif/internal/core"
)

// registration deferred until triage is complete
func init() { register("C20", c20) }

// restrictScope keeps the functions of the given repo packages.
func restrictScope(cs *crashScope, rels ...string) {
	keep := map[*ssa.Function]bool{}
	var funcs []*ssa.Function
	for _, fn := range cs.funcs {
		top := fn
		for top.Parent() != nil {
			top = top.Parent()
		}
		if top.Origin() != nil {
			top = top.Origin()
		}
		rel := ""
		if top.Package() != nil {
			rel = core.RelPkg(top.Package().Pkg)
		} else if o := top.Object(); o != nil && o.Pkg() != nil {
			rel = core.RelPkg(o.Pkg())
		}
		for _, r := range rels {
			if rel == r {
				keep[fn] = true
				funcs = append(funcs, fn)
			}
		}
	}
	cs.reach = keep
	cs.funcs = funcs
}

func c20(r *core.Report) {
	p := r.Prog
	p.BuildSSA()
	all := loadEntries(p)
	var loadE, postE []*ssa.Function
	for _, e := range all {
		n := e.Name()
		if strings.HasPrefix(n, "Load") || n == "ResolveRefsIn" || n == "UnmarshalJSON" {
			loadE = append(loadE, e)
		} else {
			postE = append(postE, e)
		}
	}
	csLoad := newCrashScope(p, "C20", loadE)
	restrictScope(csLoad, "openapi3", "cmd/validate")
	// encoders reached only through encoding/json's dynamic dispatch on a decoded map are not part of loading
	{
		var fs []*ssa.Function
		for _, fn := range csLoad.funcs {
			if strings.HasPrefix(fn.Name(), "Marshal") || strings.HasSuffix(fn.Name(), "Validate") || fn.Name() == "validate" {
				delete(csLoad.reach, fn)
				continue
			}
			fs = append(fs, fn)
		}
		csLoad.funcs = fs
	}
	// Post-load phase. Schema.visitJSON (value validation) is entered from Validate to check defaults
	// and examples. The schemas it walks have NOT all been accepted by Schema.validate yet: across a
	// back edge of a reference cycle a default is checked against a schema whose validation is still
	// in progress higher up the stack. So that subtree is analysed here as well, with one axiom only:
	// reference wrappers of a document returned by the loader are resolved (every position is walked:
	// C02.cover; a reference that found nothing fails the load: C02.backtrack; wrappers without a
	// reference have a value: C20.inv). Nothing else about validated documents is assumed.
	csPost := newCrashScope(p, "C20", postE)
	cut := p.ReachableExcept(postE, func(f *ssa.Function) bool {
		if f.Name() != "visitJSON" && f.Name() != "VisitJSON" {
			return false
		}
		rv := f.Signature.Recv()
		return rv != nil && core.NamedOf(rv.Type()) != nil && core.NamedOf(rv.Type()).Obj().Name() == "Schema"
	})
	visitOnly := map[*ssa.Function]bool{}
	for fn := range csPost.reach {
		if !cut[fn] {
			visitOnly[fn] = true
		}
	}
	csPost.resolvedWrappers = visitOnly
	csPost.funcs = nil
	for fn := range csPost.reach {
		csPost.funcs = append(csPost.funcs, fn)
	}
	sort.Slice(csPost.funcs, func(i, j int) bool {
		if csPost.funcs[i].String() != csPost.funcs[j].String() {
			return csPost.funcs[i].String() < csPost.funcs[j].String()
		}
		return csPost.funcs[i].Pos() < csPost.funcs[j].Pos()
	})
	restrictScope(csPost, "openapi3")
	{
		// the loader's own functions belong to the load phase
		var fs []*ssa.Function
		for _, fn := range csPost.funcs {
			top := fn
			for top.Parent() != nil {
				top = top.Parent()
			}
			if rv := top.Signature.Recv(); rv != nil {
				if n := core.NamedOf(rv.Type()); n != nil && n.Obj().Name() == "Loader" {
					delete(csPost.reach, fn)
					continue
				}
			}
			fs = append(fs, fn)
		}
		csPost.funcs = fs
	}
	csAll := newCrashScope(p, "C20", all)
	restrictScope(csAll, "openapi3", "cmd/validate")
	if os.Getenv("KINLINT_EXPLORE") != "" {
		exploreCrashConstructs(p, csAll.reach)
	}
	if os.Getenv("KINLINT_DEBUG") != "" {
		for _, fn := range csLoad.funcs {
			if fn.Name() == "VisitJSON" || fn.Name() == "GetByInAndName" || fn.Name() == "MatchURL" {
				fmt.Println("LOADPATH", entryPathTo(p, csLoad, fn))
			}
		}
	}
	r.Extra["reachable_functions"] = len(csAll.funcs)
	r.Extra["load_phase_functions"] = len(csLoad.funcs)
	r.Extra["post_load_functions"] = len(csPost.funcs)
	r.Assumption("claim: none of the enumerated crash constructs is reachable unguarded from load / resolve / validate / marshal / internalise within package openapi3; panics or hangs inside encoding/json, the YAML reader, jsonpointer, marshmallow on hostile bytes, memory exhaustion and non-constant indices are not decided")
	r.Assumption("load phase: nothing is known about the unmarshalled data (every pointer field, wrapper Value and collection entry may be nil); post-load phase (Validate, Marshal*, InternalizeRefs on a document returned by the loader): reference wrappers are present and resolved (C02.cover and C20.wrapper), every other pointer field or entry may be nil")
	if len(csAll.funcs) < 250 {
		r.RunRule("C20.scope", "reachability floor", 1, func() {
			r.Bad("scope", "-", fmt.Sprintf("only %d functions reachable from the load entries", len(csAll.funcs)))
		})
		return
	}
	c20Wrapper(r)
	c20Gate(r)
	c20Inv(r)
	c20PathRef(r)
	c20WrapperMarshal(r)
	c20LockCallback(r)
	c20VisitedMonotone(r)
	c20TypedNil(r)
	c20DrillNil(r)
	c20DefaultGate(r)
	c20DecodeOnce(r)
	resetScope(r, "C20.resetscope")
	crashPanic(r, csAll, map[string]panicExcuse{
		"openapi3.readableType": {
			reason: "the default case is unreachable: every value that flows into readableType (directly, or through the `resolved` parameter of resolveComponent) has one of the static types listed in its type switch",
			verify: func() string { return verifyReadableType(p) },
		},
		"openapi3.ReferencesComponentInRootDocument": {
			reason: "jsonpointer.GetForToken(doc.Components, ref.CollectionName()) cannot fail: every CollectionName method returns a constant that is the JSON name of a field of Components",
			verify: func() string { return verifyCollectionNames(p) },
		},
		"openapi3.DefaultRefNameResolver": {
			reason: "the resolver's precondition (a reference string and a recorded location) holds at every call made by InternalizeRefs: each add*ToSpec returns before asking the resolver when the wrapper is nil, unresolved (Value == nil) or not an external reference (isExternalRef implies Ref != \"\"); a resolved reference has a recorded location (setRefPath accompanies every store of Value in the loader: C16.refpath / C02.sib)",
			verify: func() string { return verifyResolverCalls(p) },
		},
	})
	crashAssert(r, csAll, map[string]assertExcuse{
		"openapi3.ReferencesComponentInRootDocument": {
			reason: "the asserted values come from a map whose type passed the reflective test two lines above (string keys, elements assignable to ComponentRef), and every collection of Components has the key type string itself",
			verify: func() string { return verifyReflectGuardedAsserts(p) },
		},
		"openapi3.drillIntoField": {
			reason: "the asserted value is field 0 named Extensions of a model struct, and every struct of package openapi3 whose first field is named Extensions declares it as map[string]any",
			verify: func() string { return verifyExtensionsField(p) },
		},
	})
	crashIndex(r, csAll, 8)
	crashLib(r, csAll, 3)
	crashHash(r, csAll, 3)
	crashBound(r, csAll, 1)
	crashIfaceNil(r, csAll, 1)
	lg := map[*ssa.Function]string{}
	crashRec(r, csAll, func(site ssa.CallInstruction, callee *ssa.Function) string {
		if w, ok := lg[callee]; ok {
			return w
		}
		lg[callee] = loaderRefGuard(p, callee)
		return lg[callee]
	}, cyclicModelTypes(p))
	crashNilPhase(r, csLoad, true, false, 10, "-load")
	crashNilPhase(r, csPost, false, true, 30, "-post")
	_ = sort.Strings
}

// c20Wrapper: every resolver rejects a nil wrapper before touching it, which is what makes
// "wrappers are present" an invariant of loaded documents.
func c20Wrapper(r *core.Report) {
	p := r.Prog
	r.RunRule("C20.wrapper", "every resolve*Ref rejects a nil wrapper (JSON null at a reference position) before dereferencing it: its first statement returns an error under `component.isEmpty()` (a nil-safe method) or `component == nil`", 10, func() {
		info := p.Pkg("openapi3").TypesInfo
		loaderT := p.NamedType("openapi3", "Loader")
		for i := 0; i < loaderT.NumMethods(); i++ {
			m := loaderT.Method(i)
			if !strings.HasPrefix(m.Name(), "resolve") || !strings.HasSuffix(m.Name(), "Ref") || m.Name() == "resolveRef" {
				continue
			}
			fd := p.Decl(m)
			if fd.Type.Params.NumFields() < 3 {
				continue
			}
			key := "wrapper-nil:" + m.Name()
			good := false
			if len(fd.Body.List) > 0 {
				if ifs, ok := fd.Body.List[0].(*ast.IfStmt); ok && core.Terminates(info, ifs.Body.List) {
					s := core.ExprStr(ifs.Cond)
					if strings.HasSuffix(s, ".isEmpty()") || strings.Contains(s, "== nil") {
						good = true
					}
				}
			}
			r.Check(good, key, p.Pos(fd.Pos()), "nil/empty wrapper rejected first", "the resolver dereferences its wrapper without rejecting nil first: `null` at this reference position makes loading panic")
		}
	})
}

// c20Gate: the loader is what stands between arbitrary decoded data and the code that runs on a
// loaded document (Validate, the marshallers, InternalizeRefs rely on "every wrapper below was
// seen by its resolver"). A resolver that reports success without going through what the object
// holds leaves null entries and unresolved wrappers below it for that code to trip over.
func c20Gate(r *core.Report) {
	p := r.Prog
	r.RunRule("C20.gate", "a resolver does not report success before it went through what the object holds: in every resolve*Ref of the Loader, a return that comes before the walk over the object's contents and is not an error return is reached only (a) because the wrapper is already resolved (`Value != nil`), (b) because the reference is being resolved further up (`!shouldVisitRef(...)`: filled in on the way back), (c) because the loader has this very object in a visited set of its own (comma-ok lookup in a field of the loader), (d) because there is no value to walk (`value == nil`), or (e) on the errMUST* sentinel of an empty target — not on a property of the decoded data such as `!pathItem.isEmpty()`", 20, func() {
		info := p.Pkg("openapi3").TypesInfo
		loaderT := p.NamedType("openapi3", "Loader")
		for i := 0; i < loaderT.NumMethods(); i++ {
			m := loaderT.Method(i)
			if !strings.HasPrefix(m.Name(), "resolve") || !strings.HasSuffix(m.Name(), "Ref") || m.Name() == "resolveRef" {
				continue
			}
			fd := p.Decl(m)
			if fd.Type.Params.NumFields() < 3 || fd.Body == nil {
				continue
			}
			recv := recvObj(info, fd)
			// the walk over the contents starts at the first call of another resolver that is not
			// inside the `if ref := x.Ref; ref != ""` block
			walkStart := token.NoPos
			var refBlock *ast.IfStmt
			for _, st := range fd.Body.List {
				if ifs, ok := st.(*ast.IfStmt); ok && ifs.Init != nil && strings.Contains(core.ExprStr(ifs.Cond), `ref != ""`) {
					refBlock = ifs
				}
			}
			ast.Inspect(fd.Body, func(nd ast.Node) bool {
				if refBlock != nil && nd == ast.Node(refBlock) {
					return false
				}
				if c, ok := nd.(*ast.CallExpr); ok && walkStart == token.NoPos {
					if f := core.CalleeOf(info, c); f != nil && strings.HasPrefix(f.Name(), "resolve") {
						walkStart = c.Pos()
					}
				}
				return true
			})
			if walkStart == token.NoPos {
				walkStart = fd.Body.End()
			}
			k := 0
			ast.Inspect(fd.Body, func(nd ast.Node) bool {
				if _, isLit := nd.(*ast.FuncLit); isLit {
					return false
				}
				ret, ok := nd.(*ast.ReturnStmt)
				if !ok || ret.Pos() > walkStart || ast.Stmt(ret) == fd.Body.List[len(fd.Body.List)-1] {
					return true
				}
				// error returns: a non-nil operand, or a bare return / `return err` under err != nil
				atoms := core.Atoms(core.GuardsAt(info, fd.Body, ret))
				isErr := false
				if len(ret.Results) == 1 && !core.IsNil(info, ret.Results[0]) {
					if id, isID := ast.Unparen(ret.Results[0]).(*ast.Ident); !isID || id.Name != "err" {
						isErr = true // errMUSTx, fmt.Errorf(...)
					}
				}
				why := ""
				for _, a := range atoms {
					s := core.ExprStr(a.Expr)
					switch x := ast.Unparen(a.Expr).(type) {
					case *ast.BinaryExpr:
						l := core.ExprStr(x.X)
						switch {
						case (l == "err" || l == "e") && core.IsNil(info, x.Y) && ((x.Op == token.NEQ && a.Pos) || (x.Op == token.EQL && !a.Pos)):
							isErr = true
						case strings.HasSuffix(l, ".Value") && core.IsNil(info, x.Y) && ((x.Op == token.NEQ && a.Pos) || (x.Op == token.EQL && !a.Pos)):
							why = "already resolved"
						case core.IsNil(info, x.Y) && ((x.Op == token.EQL && a.Pos) || (x.Op == token.NEQ && !a.Pos)):
							why = "nothing to walk (" + s + ")"
						case strings.HasPrefix(core.ExprStr(x.Y), "errMUST") && x.Op == token.EQL && a.Pos:
							why = "empty target"
						}
					case *ast.CallExpr:
						if f := core.CalleeOf(info, x); f != nil && f.Name() == "shouldVisitRef" && !a.Pos {
							why = "being resolved further up"
						}
					case *ast.Ident:
						// ok of `_, ok := loader.<field>[...]`
						if a.Pos {
							ff := core.NewFuncFacts(p, info, fd)
							for _, as := range ff.Assigns(info.ObjectOf(x)) {
								if as.MapIndex != nil {
									if root := core.RootIdent(as.MapIndex.X); root != nil && info.ObjectOf(root) == recv {
										why = "in a visited set of the loader"
									}
								}
							}
						}
					}
				}
				if isErr {
					return true
				}
				k++
				key := fmt.Sprintf("gate:%s#%d", m.Name(), k)
				if why != "" {
					r.OK(key, p.Pos(ret.Pos()), why)
				} else {
					var conds []string
					for _, a := range atoms {
						pre := ""
						if !a.Pos {
							pre = "!"
						}
						conds = append(conds, pre+"("+core.ExprStr(a.Expr)+")")
					}
					r.Bad(key, p.Pos(ret.Pos()), fmt.Sprintf("%s reports success under %v without having gone through what the object holds: for a document that makes this condition true, nothing below the object is resolved or checked by the loader (null entries, unresolved wrappers), and Validate / the marshallers dereference it", m.Name(), conds))
				}
				return true
			})
		}
	})
}

// verifyReadableType: every static type flowing into readableType's parameter is a case of its switch.
func verifyReadableType(p *core.Prog) string {
	pk := p.Pkg("openapi3")
	info := pk.TypesInfo
	obj, _ := pk.Types.Scope().Lookup("readableType").(*types.Func)
	if obj == nil {
		return "readableType not found"
	}
	fd := p.Decl(obj)
	var cases []types.Type
	hasDefaultPanic := false
	ast.Inspect(fd.Body, func(n ast.Node) bool {
		ts, ok := n.(*ast.TypeSwitchStmt)
		if !ok {
			return true
		}
		for _, c := range ts.Body.List {
			cc := c.(*ast.CaseClause)
			if cc.List == nil {
				hasDefaultPanic = true
			}
			for _, e := range cc.List {
				if t := info.TypeOf(e); t != nil {
					cases = append(cases, t)
				}
			}
		}
		return false
	})
	if len(cases) == 0 || !hasDefaultPanic {
		return "readableType is no longer a type switch with a default case"
	}
	isCase := func(t types.Type) bool {
		for _, c := range cases {
			if types.Identical(c, t) {
				return true
			}
		}
		return false
	}
	fn := p.SSAFunc(obj)
	if fn == nil {
		return "no SSA for readableType"
	}
	cg := p.CallGraph()
	type item struct {
		fn  *ssa.Function
		idx int
	}
	seen := map[item]bool{}
	var bad []string
	n := 0
	var flow func(f *ssa.Function, idx int)
	flow = func(f *ssa.Function, idx int) {
		it := item{f, idx}
		if seen[it] {
			return
		}
		seen[it] = true
		nd := cg.Nodes[f]
		if nd == nil || len(nd.In) == 0 {
			bad = append(bad, "no caller found for "+shortFn(f))
			return
		}
		for _, e := range nd.In {
			if e.Site == nil {
				continue
			}
			args := e.Site.Common().Args
			if e.Site.Common().IsInvoke() || idx >= len(args) {
				bad = append(bad, "unexpected call shape in "+shortFn(e.Caller.Func))
				continue
			}
			var visit func(v ssa.Value, depth int)
			visit = func(v ssa.Value, depth int) {
				switch x := v.(type) {
				case *ssa.MakeInterface:
					n++
					if !isCase(x.X.Type()) {
						bad = append(bad, fmt.Sprintf("%s passes a %s (%s)", shortFn(e.Caller.Func), x.X.Type(), p.Pos(e.Site.Pos())))
					}
				case *ssa.Parameter:
					for i, prm := range x.Parent().Params {
						if prm == x {
							flow(x.Parent(), i)
						}
					}
				case *ssa.FreeVar:
					// captured variable of a closure: find the binding in the parent
					par := x.Parent().Parent()
					fvIdx := -1
					for i, fv := range x.Parent().FreeVars {
						if fv == x {
							fvIdx = i
						}
					}
					found := false
					if par != nil {
						for _, b := range par.Blocks {
							for _, in := range b.Instrs {
								if mc, ok := in.(*ssa.MakeClosure); ok && mc.Fn == ssa.Value(x.Parent()) && fvIdx < len(mc.Bindings) {
									found = true
									visit(mc.Bindings[fvIdx], depth+1)
								}
							}
						}
					}
					if !found {
						bad = append(bad, "unresolved captured variable in "+shortFn(x.Parent()))
					}
				case *ssa.Phi:
					if depth < 6 {
						for _, ed := range x.Edges {
							visit(ed, depth+1)
						}
					}
				case *ssa.UnOp:
					// load of a captured/boxed variable: the stored values
					if al, ok := x.X.(*ssa.Alloc); ok && depth < 6 {
						for _, ref := range *al.Referrers() {
							if st, ok := ref.(*ssa.Store); ok && st.Addr == ssa.Value(al) {
								visit(st.Val, depth+1)
							}
						}
						return
					}
					if fv, ok := x.X.(*ssa.FreeVar); ok && depth < 6 {
						visit(fv, depth+1)
						return
					}
					bad = append(bad, fmt.Sprintf("%s passes a value of unknown static type (%s)", shortFn(e.Caller.Func), p.Pos(e.Site.Pos())))
				case *ssa.Alloc:
					// address of a boxed variable bound into a closure: the values stored to it
					for _, ref := range *x.Referrers() {
						if st, ok := ref.(*ssa.Store); ok && st.Addr == ssa.Value(x) {
							visit(st.Val, depth+1)
						}
					}
				default:
					bad = append(bad, fmt.Sprintf("%s passes a value of unknown static type (%s)", shortFn(e.Caller.Func), p.Pos(e.Site.Pos())))
				}
			}
			visit(args[idx], 0)
		}
	}
	flow(fn, 0)
	if len(bad) > 0 {
		sort.Strings(bad)
		return strings.Join(uniq(bad), "; ")
	}
	if n < 10 {
		return fmt.Sprintf("only %d typed flows into readableType were found (expected the ten resolvers)", n)
	}
	return ""
}

// verifyCollectionNames: each CollectionName() constant is the JSON name of a Components field whose
// key type is string.
func verifyCollectionNames(p *core.Prog) string {
	pk := p.Pkg("openapi3")
	info := pk.TypesInfo
	comps := p.NamedType("openapi3", "Components")
	st, ok := comps.Underlying().(*types.Struct)
	if !ok {
		return "Components is not a struct"
	}
	tags := map[string]types.Type{}
	for i := 0; i < st.NumFields(); i++ {
		if name, _ := core.JSONTag(st.Tag(i)); name != "" && name != "-" {
			tags[name] = st.Field(i).Type()
		}
	}
	// the call under the panic
	obj, _ := pk.Types.Scope().Lookup("ReferencesComponentInRootDocument").(*types.Func)
	if obj == nil {
		return "ReferencesComponentInRootDocument not found"
	}
	okCall := false
	ast.Inspect(p.Decl(obj).Body, func(n ast.Node) bool {
		c, ok := n.(*ast.CallExpr)
		if !ok || len(c.Args) != 2 {
			return true
		}
		callee := core.CalleeOf(info, c)
		if callee == nil || callee.Name() != "GetForToken" {
			return true
		}
		a0, ok0 := ast.Unparen(c.Args[0]).(*ast.SelectorExpr)
		a1, ok1 := ast.Unparen(c.Args[1]).(*ast.CallExpr)
		if ok0 && ok1 && a0.Sel.Name == "Components" {
			if m := core.CalleeOf(info, a1); m != nil && m.Name() == "CollectionName" {
				okCall = true
			}
		}
		return true
	})
	if !okCall {
		return "the lookup is no longer jsonpointer.GetForToken(doc.Components, ref.CollectionName())"
	}
	n := 0
	var bad []string
	for _, name := range pk.Types.Scope().Names() {
		tn, ok := pk.Types.Scope().Lookup(name).(*types.TypeName)
		if !ok {
			continue
		}
		named, ok := tn.Type().(*types.Named)
		if !ok {
			continue
		}
		for i := 0; i < named.NumMethods(); i++ {
			m := named.Method(i)
			if m.Name() != "CollectionName" {
				continue
			}
			fd := p.Decl(m)
			if fd == nil || len(fd.Body.List) != 1 {
				bad = append(bad, name+".CollectionName is not a single return")
				continue
			}
			ret, ok := fd.Body.List[0].(*ast.ReturnStmt)
			if !ok || len(ret.Results) != 1 {
				bad = append(bad, name+".CollectionName is not a single return")
				continue
			}
			c, ok := core.ConstStr(info, ret.Results[0])
			if !ok {
				bad = append(bad, name+".CollectionName does not return a constant")
				continue
			}
			n++
			ft, ok := tags[c]
			if !ok {
				bad = append(bad, fmt.Sprintf("%s.CollectionName returns %q, which is not a field of Components", name, c))
				continue
			}
			mt, ok := ft.Underlying().(*types.Map)
			if !ok || !types.Identical(mt.Key(), types.Typ[types.String]) {
				bad = append(bad, fmt.Sprintf("Components field %q is not a map with key type string", c))
			}
		}
	}
	if len(bad) > 0 {
		return strings.Join(bad, "; ")
	}
	if n < 9 {
		return fmt.Sprintf("only %d CollectionName methods found", n)
	}
	return ""
}

// verifyResolverCalls: every call of a RefNameResolver value is preceded, on every path, by the
// nil / unresolved / not-external early return on the wrapper it is given.
func verifyResolverCalls(p *core.Prog) string {
	pk := p.Pkg("openapi3")
	info := pk.TypesInfo
	n := 0
	var bad []string
	for _, f := range pk.Syntax {
		for _, d := range f.Decls {
			fd, ok := d.(*ast.FuncDecl)
			if !ok || fd.Body == nil {
				continue
			}
			ast.Inspect(fd.Body, func(nd ast.Node) bool {
				c, ok := nd.(*ast.CallExpr)
				if !ok || len(c.Args) != 2 {
					return true
				}
				id, ok := ast.Unparen(c.Fun).(*ast.Ident)
				if !ok {
					return true
				}
				v, ok := info.ObjectOf(id).(*types.Var)
				if !ok {
					return true
				}
				if nt := core.NamedOf(v.Type()); nt == nil || nt.Obj().Name() != "RefNameResolver" {
					if sig, ok := v.Type().Underlying().(*types.Signature); !ok || sig.Params().Len() != 2 || core.NamedOf(sig.Params().At(1).Type()) == nil || core.NamedOf(sig.Params().At(1).Type()).Obj().Name() != "ComponentRef" {
						return true
					}
				}
				n++
				arg, ok := ast.Unparen(c.Args[1]).(*ast.Ident)
				if !ok {
					bad = append(bad, "resolver called on a non-variable at "+p.Pos(c.Pos()))
					return true
				}
				w := info.ObjectOf(arg)
				var notNil, hasValue, external bool
				for _, a := range core.Atoms(core.GuardsAt(info, fd.Body, c)) {
					switch x := ast.Unparen(a.Expr).(type) {
					case *ast.BinaryExpr:
						if !core.IsNil(info, x.Y) {
							continue
						}
						nonNil := (x.Op == token.EQL && !a.Pos) || (x.Op == token.NEQ && a.Pos)
						if !nonNil {
							continue
						}
						if xid, ok := ast.Unparen(x.X).(*ast.Ident); ok && info.ObjectOf(xid) == w {
							notNil = true
						}
						if sel, ok := ast.Unparen(x.X).(*ast.SelectorExpr); ok && sel.Sel.Name == "Value" {
							if xid, ok := ast.Unparen(sel.X).(*ast.Ident); ok && info.ObjectOf(xid) == w {
								hasValue = true
							}
						}
					case *ast.CallExpr:
						if callee := core.CalleeOf(info, x); callee != nil && callee.Name() == "isExternalRef" && a.Pos && len(x.Args) >= 1 {
							if sel, ok := ast.Unparen(x.Args[0]).(*ast.SelectorExpr); ok && sel.Sel.Name == "Ref" {
								if xid, ok := ast.Unparen(sel.X).(*ast.Ident); ok && info.ObjectOf(xid) == w {
									external = true
								}
							}
						}
					}
				}
				if !notNil || !hasValue || !external {
					bad = append(bad, fmt.Sprintf("%s calls the name resolver at %s without first returning for a nil (%v), unresolved (%v) or internal (%v) reference", fd.Name.Name, p.Pos(c.Pos()), notNil, hasValue, external))
				}
				return true
			})
		}
	}
	// isExternalRef implies a non-empty reference
	if obj, _ := pk.Types.Scope().Lookup("isExternalRef").(*types.Func); obj != nil {
		fd := p.Decl(obj)
		okE := false
		if len(fd.Body.List) == 1 {
			if ret, ok := fd.Body.List[0].(*ast.ReturnStmt); ok && len(ret.Results) == 1 {
				if be, ok := ast.Unparen(ret.Results[0]).(*ast.BinaryExpr); ok && be.Op == token.LAND && core.ExprStr(be.X) == `ref != ""` {
					okE = true
				}
			}
		}
		if !okE {
			bad = append(bad, "isExternalRef no longer starts with `ref != \"\" &&`")
		}
	} else {
		bad = append(bad, "isExternalRef not found")
	}
	if len(bad) > 0 {
		return strings.Join(bad, "; ")
	}
	if n < 9 {
		return fmt.Sprintf("only %d resolver calls found", n)
	}
	return ""
}

// verifyReflectGuardedAsserts: the two assertions of ReferencesComponentInRootDocument sit inside the
// `if` that tests the reflected map type.
func verifyReflectGuardedAsserts(p *core.Prog) string {
	pk := p.Pkg("openapi3")
	info := pk.TypesInfo
	obj, _ := pk.Types.Scope().Lookup("ReferencesComponentInRootDocument").(*types.Func)
	if obj == nil {
		return "ReferencesComponentInRootDocument not found"
	}
	fd := p.Decl(obj)
	n := 0
	var bad []string
	ast.Inspect(fd.Body, func(nd ast.Node) bool {
		ta, ok := nd.(*ast.TypeAssertExpr)
		if !ok || ta.Type == nil {
			return true
		}
		n++
		var keyKind, assignable bool
		for _, a := range core.Atoms(core.GuardsAt(info, fd.Body, ta)) {
			if !a.Pos {
				continue
			}
			s := core.ExprStr(a.Expr)
			if strings.HasSuffix(s, ".Key().Kind() == reflect.String") {
				keyKind = true
			}
			if strings.Contains(s, ".Elem().AssignableTo(") {
				assignable = true
			}
		}
		if !keyKind || !assignable {
			bad = append(bad, "assertion at "+p.Pos(ta.Pos())+" is not under the reflective key-kind/element-assignability test")
		}
		return true
	})
	if len(bad) > 0 {
		return strings.Join(bad, "; ")
	}
	if n != 2 {
		return fmt.Sprintf("%d assertions found, 2 confirmed", n)
	}
	return verifyCollectionNames(p)
}

// verifyExtensionsField: a first field named Extensions is a map[string]any in every struct of openapi3.
func verifyExtensionsField(p *core.Prog) string {
	pk := p.Pkg("openapi3")
	want := types.NewMap(types.Typ[types.String], types.Universe.Lookup("any").Type())
	n := 0
	var bad []string
	for _, name := range pk.Types.Scope().Names() {
		tn, ok := pk.Types.Scope().Lookup(name).(*types.TypeName)
		if !ok {
			continue
		}
		st, ok := tn.Type().Underlying().(*types.Struct)
		if !ok || st.NumFields() == 0 || st.Field(0).Name() != "Extensions" {
			continue
		}
		n++
		if !types.Identical(types.Unalias(st.Field(0).Type()), want) {
			bad = append(bad, fmt.Sprintf("%s.Extensions is a %s", name, st.Field(0).Type()))
		}
	}
	// the assertion is still guarded by the field-name test
	obj, _ := pk.Types.Scope().Lookup("drillIntoField").(*types.Func)
	if obj == nil {
		return "drillIntoField not found"
	}
	fd := p.Decl(obj)
	okG := false
	ast.Inspect(fd.Body, func(nd ast.Node) bool {
		ta, ok := nd.(*ast.TypeAssertExpr)
		if !ok || ta.Type == nil {
			return true
		}
		for _, a := range core.Atoms(core.GuardsAt(pk.TypesInfo, fd.Body, ta)) {
			if a.Pos && strings.HasSuffix(core.ExprStr(a.Expr), `.Name == "Extensions"`) {
				okG = true
			}
		}
		return true
	})
	if !okG {
		bad = append(bad, "the assertion is no longer under the `ff.Name == \"Extensions\"` test")
	}
	if len(bad) > 0 {
		return strings.Join(bad, "; ")
	}
	if n < 20 {
		return fmt.Sprintf("only %d structs with a leading Extensions field", n)
	}
	return ""
}

// loaderRefGuard: termination argument for the loader's recursion over reference wrappers. The
// callee is a resolve*Ref method whose reference branch (`if ref := component.Ref; ref != ""`) starts
// by returning when the wrapper is already resolved (`component.Value != nil`) or when the reference
// is being resolved (`!loader.shouldVisitRef(ref, ...)`, a membership test on loader.visitedRefs),
// and marks the reference (`loader.visitRef(ref)`) before it descends; pointer sharing (the only way
// a decoded document becomes cyclic) is introduced solely by stores to a wrapper's Value inside such
// a reference branch or inside a backtrack closure handed to shouldVisitRef. A traversal therefore
// stops at every wrapper that is resolved or in progress, and what remains is the finite tree decoded
// from the input.
func loaderRefGuard(p *core.Prog, callee *ssa.Function) string {
	obj, ok := callee.Object().(*types.Func)
	if !ok || obj == nil || !core.InRepo(obj.Pkg()) {
		return ""
	}
	sig := obj.Type().(*types.Signature)
	if sig.Recv() == nil || core.NamedOf(sig.Recv().Type()) == nil || core.NamedOf(sig.Recv().Type()).Obj().Name() != "Loader" {
		return ""
	}
	if !strings.HasPrefix(obj.Name(), "resolve") || sig.Params().Len() < 3 {
		return ""
	}
	wrapper := sig.Params().At(1)
	info := p.InfoFor(obj.Pkg())
	fd := p.Decl(obj)
	if fd == nil || fd.Body == nil {
		return ""
	}
	isW := func(e ast.Expr) bool {
		id, ok := ast.Unparen(e).(*ast.Ident)
		return ok && info.ObjectOf(id) == wrapper
	}
	// (a) the reference branch and its two early returns followed by visitRef
	var refBlock *ast.IfStmt
	for _, st := range fd.Body.List {
		ifs, ok := st.(*ast.IfStmt)
		if !ok || ifs.Init == nil {
			continue
		}
		as, ok := ifs.Init.(*ast.AssignStmt)
		if !ok || len(as.Rhs) != 1 {
			continue
		}
		sel, ok := ast.Unparen(as.Rhs[0]).(*ast.SelectorExpr)
		if !ok || sel.Sel.Name != "Ref" || !isW(sel.X) {
			continue
		}
		if be, ok := ast.Unparen(ifs.Cond).(*ast.BinaryExpr); ok && be.Op == token.NEQ {
			if s, ok := strConst(info, be.Y); ok && s == "" {
				refBlock = ifs
			}
		}
	}
	if refBlock == nil {
		return ""
	}
	stage := 0 // 0: want Value != nil return; 1: want !shouldVisitRef return; 2: want visitRef; 3: done
	for _, st := range refBlock.Body.List {
		switch stage {
		case 0, 1:
			ifs, ok := st.(*ast.IfStmt)
			if !ok || !core.Terminates(info, ifs.Body.List) {
				return ""
			}
			if stage == 0 {
				be, ok := ast.Unparen(ifs.Cond).(*ast.BinaryExpr)
				if !ok || be.Op != token.NEQ || !core.IsNil(info, be.Y) {
					return ""
				}
				sel, ok := ast.Unparen(be.X).(*ast.SelectorExpr)
				if !ok || sel.Sel.Name != "Value" || !isW(sel.X) {
					return ""
				}
				stage = 1
				continue
			}
			un, ok := ast.Unparen(ifs.Cond).(*ast.UnaryExpr)
			if !ok || un.Op != token.NOT {
				return ""
			}
			c, ok := ast.Unparen(un.X).(*ast.CallExpr)
			if !ok {
				return ""
			}
			m := core.CalleeOf(info, c)
			if m == nil || m.Name() != "shouldVisitRef" || !visitedSetTest(p, m) {
				return ""
			}
			stage = 2
		case 2:
			es, ok := st.(*ast.ExprStmt)
			if !ok {
				return ""
			}
			c, ok := es.X.(*ast.CallExpr)
			if !ok {
				return ""
			}
			if m := core.CalleeOf(info, c); m == nil || m.Name() != "visitRef" {
				return ""
			}
			stage = 3
		}
		if stage == 3 {
			break
		}
	}
	if stage != 3 {
		return ""
	}
	// (c) stores to a wrapper's Value in the loader happen only in reference branches / backtrack closures
	if bad := valueStoresOutsideRefBranch(p); bad != "" {
		return ""
	}
	return "loader recursion: the callee stops at a wrapper that is resolved (Value != nil) or in progress (shouldVisitRef / visitedRefs) before descending, and only reference branches and backtrack closures store a wrapper's Value, so sharing cannot make the traversal of the decoded tree cyclic"
}

// visitedSetTest: m returns false after finding its argument in a map field of the receiver.
func visitedSetTest(p *core.Prog, m *types.Func) bool {
	fd := p.Decl(m)
	if fd == nil || fd.Body == nil || len(fd.Body.List) < 2 {
		return false
	}
	info := p.InfoFor(m.Pkg())
	ifs, ok := fd.Body.List[0].(*ast.IfStmt)
	if !ok || ifs.Init == nil {
		return false
	}
	as, ok := ifs.Init.(*ast.AssignStmt)
	if !ok || len(as.Lhs) != 2 || len(as.Rhs) != 1 {
		return false
	}
	ix, ok := ast.Unparen(as.Rhs[0]).(*ast.IndexExpr)
	if !ok {
		return false
	}
	if _, isMap := info.TypeOf(ix.X).Underlying().(*types.Map); !isMap {
		return false
	}
	okID, ok := as.Lhs[1].(*ast.Ident)
	if !ok {
		return false
	}
	cid, ok := ast.Unparen(ifs.Cond).(*ast.Ident)
	if !ok || info.ObjectOf(cid) != info.ObjectOf(okID) {
		return false
	}
	ret, ok := ifs.Body.List[len(ifs.Body.List)-1].(*ast.ReturnStmt)
	if !ok || len(ret.Results) != 1 || core.ExprStr(ret.Results[0]) != "false" {
		return false
	}
	return true
}

// valueStoresOutsideRefBranch lists assignments `w.Value = ...` (w a reference wrapper) in Loader
// methods that are neither inside an `if ref := w.Ref; ref != ""` block nor inside a function literal
// passed to shouldVisitRef.
func valueStoresOutsideRefBranch(p *core.Prog) string {
	pk := p.Pkg("openapi3")
	info := pk.TypesInfo
	var bad []string
	n := 0
	for _, f := range pk.Syntax {
		for _, d := range f.Decls {
			fd, ok := d.(*ast.FuncDecl)
			if !ok || fd.Body == nil || fd.Recv == nil {
				continue
			}
			if rt := core.NamedOf(info.TypeOf(fd.Recv.List[0].Type)); rt == nil || rt.Obj().Name() != "Loader" {
				continue
			}
			ast.Inspect(fd.Body, func(nd ast.Node) bool {
				as, ok := nd.(*ast.AssignStmt)
				if !ok {
					return true
				}
				for _, l := range as.Lhs {
					sel, ok := ast.Unparen(l).(*ast.SelectorExpr)
					if !ok || sel.Sel.Name != "Value" {
						continue
					}
					wn := core.NamedOf(info.TypeOf(sel.X))
					if wn == nil {
						continue
					}
					if _, isW := core.IsRefWrapper(wn); !isW {
						continue
					}
					n++
					okStore := false
					path := core.PathTo(fd.Body, as)
					for i, anc := range path {
						switch x := anc.(type) {
						case *ast.IfStmt:
							if be, ok := ast.Unparen(x.Cond).(*ast.BinaryExpr); ok && be.Op == token.NEQ {
								if s, ok := strConst(info, be.Y); ok && s == "" && i+1 < len(path) && path[i+1] == ast.Node(x.Body) {
									okStore = true
								}
							}
						case *ast.CallExpr:
							if m := core.CalleeOf(info, x); m != nil && m.Name() == "shouldVisitRef" {
								okStore = true
							}
						}
					}
					if !okStore {
						bad = append(bad, p.Pos(as.Pos()))
					}
				}
				return true
			})
		}
	}
	if n < 20 {
		return fmt.Sprintf("only %d stores found", n)
	}
	return strings.Join(bad, ", ")
}

// c20PathRef: the marshallers of the document model recurse along PathItem -> Operation -> Callback
// -> PathItem. A loaded document can hold a cycle there (a callback whose path item refers to a path
// of the document); what ends the recursion is PathItem.MarshalYAML writing a path item that has a
// Ref as `$ref` alone. Code that clears that Ref on a loaded document removes the stop.
func c20PathRef(r *core.Report) {
	p := r.Prog
	r.RunRule("C20.pathref", "serialising a loaded document ends: (a) PathItem.MarshalYAML returns the bare reference when Ref is set, before it touches the operations (C03.refonly has the shape); (b) outside the decoders and the loader, the Ref of a PathItem is set to the empty string only under a condition that rules out a reference into the document's own paths (a value computed from strings.HasPrefix(ref, \"#/paths/\") or, wider, strings.HasPrefix(ref, \"#/\")): clearing such a reference turns a path item cycle through a callback into an endless serialisation (stack overflow, not recoverable)", 1, func() {
		pk := p.Pkg("openapi3")
		info := pk.TypesInfo
		piT := p.NamedType("openapi3", "PathItem")
		n := 0
		for _, fd := range p.AllDecls("openapi3") {
			if fd.Body == nil || strings.HasPrefix(fd.Name.Name, "Unmarshal") {
				continue
			}
			if fd.Recv != nil {
				if rn := core.NamedOf(info.TypeOf(fd.Recv.List[0].Type)); rn != nil && rn.Obj().Name() == "Loader" {
					continue
				}
			}
			ff := core.NewFuncFacts(p, info, fd)
			k := 0
			ast.Inspect(fd.Body, func(nd ast.Node) bool {
				as, ok := nd.(*ast.AssignStmt)
				if !ok || len(as.Lhs) != len(as.Rhs) {
					return true
				}
				for i, l := range as.Lhs {
					sel, ok := ast.Unparen(l).(*ast.SelectorExpr)
					if !ok || sel.Sel.Name != "Ref" || core.NamedOf(info.TypeOf(sel.X)) != piT {
						continue
					}
					if sv, isStr := core.ConstStr(info, as.Rhs[i]); !isStr || sv != "" {
						continue
					}
					n++
					k++
					key := fmt.Sprintf("pathref:%s#%d", core.FuncName(fd), k)
					good := false
					for _, a := range core.Atoms(core.GuardsAt(info, fd.Body, as)) {
						// the guard (or what it was computed from) tests the "#/paths/" prefix
						var exprs []ast.Expr
						exprs = append(exprs, a.Expr)
						exprs = append(exprs, ff.Roots(a.Expr, false).Exprs...)
						prefixTest, ctxDependent := false, false
						for _, e := range exprs {
							ast.Inspect(e, func(m ast.Node) bool {
								if c, ok := m.(*ast.CallExpr); ok && len(c.Args) == 2 {
									if f := core.CalleeOf(info, c); f != nil && f.Name() == "HasPrefix" {
										if sv, isStr := core.ConstStr(info, c.Args[1]); isStr && (sv == "#/paths/" || sv == "#/") && !a.Pos {
											prefixTest = true
										}
									}
								}
								if id, ok := m.(*ast.Ident); ok {
									if o, isVar := info.ObjectOf(id).(*types.Var); isVar && isParamOf(fd, info, o) {
										if b, isB := o.Type().Underlying().(*types.Basic); isB && b.Kind() == types.Bool {
											ctxDependent = true
										}
									}
								}
								return true
							})
						}
						// the exemption holds wherever the walk is: a path item cycle inside an external
						// document is as impossible to inline as one of the root document
						if prefixTest && !ctxDependent {
							good = true
						}
					}
					r.Check(good, key, p.Pos(as.Pos()), "not reached for a reference into the document's own paths", core.FuncName(fd)+" clears the reference of a path item whatever it refers to: for a path item that is reached again through a callback of its own operations (a cycle that loading and validating accept) the copy of the target's operations stays and json.Marshal / yaml.Marshal of the document never returns")
				}
				return true
			})
		}
		if n == 0 {
			r.Trivial("pathref:none", "-", "no code outside the decoders and the loader clears a path item's Ref")
		}
	})
}

// c20WrapperMarshal: a document that was decoded without the loader (json.Unmarshal into a T) can
// hold a wrapper with neither reference nor value: `null` at a reference position. Serialising it
// must not dereference the missing value.
func c20WrapperMarshal(r *core.Report) {
	p := r.Prog
	info := p.Pkg("openapi3").TypesInfo
	r.RunRule("C20.wrappermarshal", "serialising a reference wrapper does not dereference a missing value: in the MarshalYAML of every reference wrapper, the call of a method on x.Value stands where x.Value was tested non-nil (an early `if x.Value == nil { return nil, nil }`)", 9, func() {
		for _, n := range p.ModelTypes("openapi3", "T") {
			if _, isW := core.IsRefWrapper(n); !isW {
				continue
			}
			m := core.HasMethod(n, "MarshalYAML")
			if m == nil {
				continue
			}
			fd := p.Decl(m)
			k := 0
			ast.Inspect(fd.Body, func(nd ast.Node) bool {
				c, ok := nd.(*ast.CallExpr)
				if !ok {
					return true
				}
				sel, ok := ast.Unparen(c.Fun).(*ast.SelectorExpr)
				if !ok {
					return true
				}
				vs, ok := ast.Unparen(sel.X).(*ast.SelectorExpr)
				if !ok || vs.Sel.Name != "Value" {
					return true
				}
				k++
				key := fmt.Sprintf("wrappermarshal:%s#%d", n.Obj().Name(), k)
				good := false
				for _, a := range core.Atoms(core.GuardsAt(info, fd.Body, c)) {
					if be, ok := ast.Unparen(a.Expr).(*ast.BinaryExpr); ok && core.IsNil(info, be.Y) && core.ExprStr(be.X) == core.ExprStr(vs) {
						if (be.Op == token.NEQ && a.Pos) || (be.Op == token.EQL && !a.Pos) {
							good = true
						}
					}
				}
				r.Check(good, key, p.Pos(c.Pos()), "Value tested non-nil first", n.Obj().Name()+".MarshalYAML calls "+sel.Sel.Name+" on x.Value without a nil test: a wrapper decoded from `null` (no reference, no value) makes json.Marshal / yaml.Marshal of the document panic")
				return true
			})
		}
	})
}

// c20LockCallback: a package-level lock is not held while code the package does not control runs.
// A reader handed to URIMapCache may itself be (or fall back to) a cache guarded by the same lock.
func c20LockCallback(r *core.Report) {
	p := r.Prog
	info := p.Pkg("openapi3").TypesInfo
	r.RunRule("C20.lockcallback", "loading does not deadlock on its own lock: in package openapi3, between taking a package-level mutex (Lock/RLock on a package variable) and releasing it — the rest of the function when the release is deferred — no function value (a parameter, a field, a captured variable: a reader, a callback) is called; with `defer mu.Unlock()` around the call of the wrapped reader, a reader that is itself a cache on the same mutex (URIMapCache(ReadFromURIs(custom, DefaultReadFromURI))) blocks for ever", 1, func() {
		n := 0
		pkgScope := p.Pkg("openapi3").Types.Scope()
		isPkgMutex := func(e ast.Expr) bool {
			id, ok := ast.Unparen(e).(*ast.Ident)
			if !ok {
				return false
			}
			o := info.ObjectOf(id)
			return o != nil && o.Parent() == pkgScope
		}
		var scan func(fname string, body *ast.BlockStmt)
		scan = func(fname string, body *ast.BlockStmt) {
			ast.Inspect(body, func(nd ast.Node) bool {
				blk, ok := nd.(*ast.BlockStmt)
				if !ok {
					return true
				}
				held, deferred := false, false
				for _, st := range blk.List {
					// lock / unlock statements of this block
					if es, ok := st.(*ast.ExprStmt); ok {
						if c, ok := es.X.(*ast.CallExpr); ok {
							if sel, ok := ast.Unparen(c.Fun).(*ast.SelectorExpr); ok && isPkgMutex(sel.X) {
								switch sel.Sel.Name {
								case "Lock", "RLock":
									held = true
									n++
									continue
								case "Unlock", "RUnlock":
									if !deferred {
										held = false
									}
									continue
								}
							}
						}
					}
					if ds, ok := st.(*ast.DeferStmt); ok {
						if sel, ok := ast.Unparen(ds.Call.Fun).(*ast.SelectorExpr); ok && isPkgMutex(sel.X) && strings.HasSuffix(sel.Sel.Name, "nlock") {
							deferred = true
							continue
						}
					}
					if !held {
						continue
					}
					ast.Inspect(st, func(m ast.Node) bool {
						if _, isLit := m.(*ast.FuncLit); isLit {
							return false
						}
						c, ok := m.(*ast.CallExpr)
						if !ok {
							return true
						}
						if id, ok := ast.Unparen(c.Fun).(*ast.Ident); ok {
							if v, isVar := info.ObjectOf(id).(*types.Var); isVar {
								if _, isSig := v.Type().Underlying().(*types.Signature); isSig {
									r.Bad(fmt.Sprintf("lockcallback:%s/%s", fname, id.Name), p.Pos(c.Pos()), fmt.Sprintf("%s calls the function value `%s` while it holds a package-level lock: when that function ends up in code that takes the same lock (another cache built on it), the load never returns", fname, id.Name))
								}
							}
						}
						return true
					})
				}
				return true
			})
		}
		for _, d := range p.AllDecls("openapi3") {
			if d.Body != nil {
				scan(core.FuncName(d), d.Body)
			}
		}
		if n == 0 {
			core.Fail("no package-level mutex is taken in package openapi3 (URIMapCache expected)")
		}
		r.Trivial("lockcallback:sections", "-", fmt.Sprintf("%d critical sections on package-level locks examined", n))
	})
}

// c20VisitedMonotone: a set that keeps a walk over a shared graph from visiting an object twice only
// works while nothing leaves it. Removing an object when its visit ends turns the set into "the
// objects on the current path": cycles are still cut, but an object shared by two parents is
// walked once per path to it — exponentially often on a ladder of shared objects.
func c20VisitedMonotone(r *core.Report) {
	p := r.Prog
	info := p.Pkg("openapi3").TypesInfo
	r.RunRule("C20.visitedmonotone", "visited sets only grow during validation: in the Validate methods and validate* helpers of package openapi3 no entry is deleted (also not by a deferred delete) from a map keyed by pointers to model objects — a callback, schema or path item that was validated stays known, or a document in which objects share sub-objects (41 callbacks each referring twice to the next) takes 2^n visits to validate", 1, func() {
		n := 0
		sets := 0
		// the family and the helpers of the package it calls (collect*, ...), transitively
		fam := validateFamily(p)
		inFam := map[*ast.FuncDecl]bool{}
		for _, d := range fam {
			inFam[d] = true
		}
		for i := 0; i < len(fam); i++ {
			if fam[i].Body == nil {
				continue
			}
			ast.Inspect(fam[i].Body, func(nd ast.Node) bool {
				if c, ok := nd.(*ast.CallExpr); ok {
					if f := core.CalleeOf(info, c); f != nil && f.Pkg() != nil && f.Pkg().Path() == core.ModPath+"/openapi3" {
						var cd *ast.FuncDecl
						func() {
							defer func() { _ = recover() }() // interface methods have no declaration
							if sig, ok := f.Type().(*types.Signature); ok && sig.Recv() != nil {
								if _, isIface := sig.Recv().Type().Underlying().(*types.Interface); isIface {
									return
								}
							}
							cd = p.Decl(f)
						}()
						if cd != nil && !inFam[cd] {
							inFam[cd] = true
							fam = append(fam, cd)
						}
					}
				}
				return true
			})
		}
		for _, d := range fam {
			if d.Body == nil {
				continue
			}
			ast.Inspect(d.Body, func(nd ast.Node) bool {
				// a pointer-keyed set in use
				if ix, ok := nd.(*ast.IndexExpr); ok {
					if mt, ok := info.TypeOf(ix.X).Underlying().(*types.Map); ok {
						if _, isPtr := mt.Key().Underlying().(*types.Pointer); isPtr {
							sets++
						}
					}
				}
				c, ok := nd.(*ast.CallExpr)
				if !ok || len(c.Args) != 2 {
					return true
				}
				id, ok := ast.Unparen(c.Fun).(*ast.Ident)
				if !ok || id.Name != "delete" {
					return true
				}
				mt, ok := info.TypeOf(c.Args[0]).Underlying().(*types.Map)
				if !ok {
					return true
				}
				if _, isPtr := mt.Key().Underlying().(*types.Pointer); !isPtr {
					return true
				}
				n++
				r.Bad(fmt.Sprintf("visitedmonotone:%s#%d", core.FuncName(d), n), p.Pos(c.Pos()), fmt.Sprintf("%s deletes an object from the set of objects already validated (%s): the set then only holds the objects on the current path, and an object reachable on several paths is validated once per path — 2^n times on a ladder of n shared objects, on a document that is small and loads", core.FuncName(d), core.ExprStr(c.Args[0])))
				return true
			})
		}
		if sets == 0 {
			core.Fail("no pointer-keyed set is used in the validate family (Callback.Validate expected)")
		}
		if n == 0 {
			r.Trivial("visitedmonotone:none", "-", fmt.Sprintf("%d uses of pointer-keyed sets, no deletion", sets))
		}
	})
}

// c20Inv: the post-load phase relies on "a wrapper whose resolver rejects empty wrappers has a
// reference or a value". Code that runs on a loaded document must keep that true: it may clear a
// wrapper's Ref only where the same wrapper's Value is known to be non-nil, and never stores nil to Value.
func c20Inv(r *core.Report) {
	p := r.Prog
	r.RunRule("C20.inv", "wrappers stay non-empty after loading: outside the decoders, every assignment of the empty string to a reference wrapper's Ref is guarded by a non-nil test of the same wrapper's Value, every other value stored to Ref is a non-empty constant or a concatenation with one, and nil is never stored to a wrapper's Value (the nil-ness analysis of the post-load phase uses this invariant for `if x.Ref != \"\" {...}; x.Value.f`)", 9, func() {
		pk := p.Pkg("openapi3")
		info := pk.TypesInfo
		perFn := map[string]int{}
		for _, f := range pk.Syntax {
			for _, d := range f.Decls {
				fd, ok := d.(*ast.FuncDecl)
				if !ok || fd.Body == nil || strings.HasPrefix(fd.Name.Name, "Unmarshal") {
					continue
				}
				ast.Inspect(fd.Body, func(nd ast.Node) bool {
					as, ok := nd.(*ast.AssignStmt)
					if !ok || len(as.Lhs) != len(as.Rhs) {
						return true
					}
					for i, l := range as.Lhs {
						sel, ok := ast.Unparen(l).(*ast.SelectorExpr)
						if !ok || (sel.Sel.Name != "Ref" && sel.Sel.Name != "Value") {
							continue
						}
						wn := core.NamedOf(info.TypeOf(sel.X))
						if wn == nil {
							continue
						}
						if _, isW := core.IsRefWrapper(wn); !isW {
							continue
						}
						perFn[fd.Name.Name+"/"+sel.Sel.Name]++
						key := fmt.Sprintf("inv:%s/%s.%s#%d", fd.Name.Name, wn.Obj().Name(), sel.Sel.Name, perFn[fd.Name.Name+"/"+sel.Sel.Name])
						pos := p.Pos(as.Pos())
						rhs := ast.Unparen(as.Rhs[i])
						if sel.Sel.Name == "Value" {
							if core.IsNil(info, rhs) {
								r.Bad(key, pos, "nil stored to a wrapper's Value: the wrapper may become empty")
							} else {
								r.Trivial(key, pos, "not a nil store")
							}
							continue
						}
						if sv, ok := strConst(info, rhs); ok {
							if sv != "" {
								r.OK(key, pos, "non-empty constant reference")
								continue
							}
							guarded := false
							for _, a := range core.Atoms(core.GuardsAt(info, fd.Body, as)) {
								be, ok := ast.Unparen(a.Expr).(*ast.BinaryExpr)
								if !ok || !core.IsNil(info, be.Y) {
									continue
								}
								if !((be.Op == token.NEQ && a.Pos) || (be.Op == token.EQL && !a.Pos)) {
									continue
								}
								if vs, ok := ast.Unparen(be.X).(*ast.SelectorExpr); ok && vs.Sel.Name == "Value" && core.ExprStr(vs.X) == core.ExprStr(sel.X) {
									guarded = true
								}
							}
							r.Check(guarded, key, pos, "reference cleared only where the wrapper has a value", "the wrapper's Ref is cleared without knowing that its Value is non-nil: an unresolved reference becomes an empty wrapper, which MarshalJSON dereferences")
							continue
						}
						if be, ok := rhs.(*ast.BinaryExpr); ok && be.Op == token.ADD {
							if sv, ok := strConst(info, be.X); ok && sv != "" {
								r.OK(key, pos, "concatenation with a non-empty constant prefix")
								continue
							}
						}
						if id, ok := rhs.(*ast.Ident); ok {
							// `ref` bound by `if ref := x.Ref; ref != ""`
							nonEmpty := false
							for _, a := range core.Atoms(core.GuardsAt(info, fd.Body, as)) {
								if be, ok := ast.Unparen(a.Expr).(*ast.BinaryExpr); ok && be.Op == token.NEQ && a.Pos {
									if xid, ok := ast.Unparen(be.X).(*ast.Ident); ok && info.ObjectOf(xid) == info.ObjectOf(id) {
										if sv, ok := strConst(info, be.Y); ok && sv == "" {
											nonEmpty = true
										}
									}
								}
							}
							if nonEmpty {
								r.OK(key, pos, "a reference string tested non-empty")
								continue
							}
						}
						r.Unknown(key, pos, "cannot tell whether the stored reference is empty")
					}
					return true
				})
			}
		}
	})
}

// cyclicModelTypes: the document-model types that can lie on a pointer cycle of a loaded document:
// the members of non-trivial strongly connected components of the containment graph of package
// openapi3's model (fields through pointers, slices, maps and embedding). Returns a predicate on
// parameter types (pointer to, or collection of, such a type).
func cyclicModelTypes(p *core.Prog) func(t types.Type) bool {
	model := p.ModelTypes("openapi3", "T")
	in := map[*types.Named]bool{}
	for _, n := range model {
		in[n] = true
	}
	succ := map[*types.Named][]*types.Named{}
	var targets func(t types.Type, depth int, out *[]*types.Named)
	targets = func(t types.Type, depth int, out *[]*types.Named) {
		if depth > 8 {
			return
		}
		switch x := types.Unalias(t).(type) {
		case *types.Pointer:
			targets(x.Elem(), depth+1, out)
		case *types.Slice:
			targets(x.Elem(), depth+1, out)
		case *types.Map:
			targets(x.Elem(), depth+1, out)
		case *types.Named:
			if in[x.Origin()] {
				*out = append(*out, x.Origin())
			}
			switch x.Underlying().(type) {
			case *types.Map, *types.Slice, *types.Pointer:
				targets(x.Underlying(), depth+1, out)
			}
		}
	}
	for _, n := range model {
		switch u := n.Underlying().(type) {
		case *types.Struct:
			for i := 0; i < u.NumFields(); i++ {
				var out []*types.Named
				targets(u.Field(i).Type(), 0, &out)
				succ[n] = append(succ[n], out...)
			}
		default:
			var out []*types.Named
			targets(u, 0, &out)
			succ[n] = append(succ[n], out...)
		}
	}
	// Tarjan
	idx, low := map[*types.Named]int{}, map[*types.Named]int{}
	on := map[*types.Named]bool{}
	var stack []*types.Named
	cyc := map[*types.Named]bool{}
	counter := 0
	var strong func(v *types.Named)
	strong = func(v *types.Named) {
		counter++
		idx[v], low[v] = counter, counter
		stack = append(stack, v)
		on[v] = true
		self := false
		for _, w := range succ[v] {
			if w == v {
				self = true
			}
			if idx[w] == 0 {
				strong(w)
				if low[w] < low[v] {
					low[v] = low[w]
				}
			} else if on[w] && idx[w] < low[v] {
				low[v] = idx[w]
			}
		}
		if low[v] == idx[v] {
			var comp []*types.Named
			for {
				w := stack[len(stack)-1]
				stack = stack[:len(stack)-1]
				on[w] = false
				comp = append(comp, w)
				if w == v {
					break
				}
			}
			if len(comp) > 1 || self {
				for _, w := range comp {
					cyc[w] = true
				}
			}
		}
	}
	for _, n := range model {
		if idx[n] == 0 {
			strong(n)
		}
	}
	return func(t types.Type) bool {
		var out []*types.Named
		targets(t, 0, &out)
		for _, n := range out {
			if cyc[n] {
				return true
			}
		}
		return false
	}
}

// c20TypedNil: a value read through reflection is nil-tested with reflection.
func c20TypedNil(r *core.Report) {
	p := r.Prog
	pk := p.Pkg("openapi3")
	info := pk.TypesInfo
	r.RunRule("C20.typednil", "a value obtained by reflection is not nil-tested with `== nil` alone: in package openapi3, wherever a variable that holds the result of a function returning reflect.Value.Interface() (the fragment drill-down: a struct field, map element or slice element of arbitrary decoded data) is compared with nil, the same condition also tests reflect.ValueOf(x).IsNil() — a nil pointer field comes back as a non-nil interface holding a nil pointer, passes `== nil`, and the next method call or Elem() on it panics", 1, func() {
		// functions whose result may be a reflect.Value.Interface()
		reflective := map[*types.Func]bool{}
		reflIdx := map[*types.Func]map[int]bool{}
		decls := map[*types.Func]*ast.FuncDecl{}
		for _, d := range p.AllDecls("openapi3") {
			o, _ := info.Defs[d.Name].(*types.Func)
			if o == nil {
				continue
			}
			decls[o] = d
			forEachReturnStmt(d.Body, func(ret *ast.ReturnStmt) {
				for ri, e := range ret.Results {
					ast.Inspect(e, func(n ast.Node) bool {
						if c, ok := n.(*ast.CallExpr); ok {
							if callee := core.CalleeOf(info, c); callee != nil && callee.Name() == "Interface" && callee.Pkg() != nil && callee.Pkg().Path() == "reflect" {
								reflective[o] = true
								if reflIdx[o] == nil {
									reflIdx[o] = map[int]bool{}
								}
								reflIdx[o][ri] = true
							}
						}
						return true
					})
				}
			})
		}
		if len(reflective) == 0 {
			core.Fail("no function returning reflect.Value.Interface() found (drillIntoField expected)")
		}
		n := 0
		for _, d := range p.AllDecls("openapi3") {
			ff := core.NewFuncFacts(p, info, d)
			perFn := 0
			ast.Inspect(d.Body, func(nd ast.Node) bool {
				be, ok := nd.(*ast.BinaryExpr)
				if !ok || (be.Op != token.EQL && be.Op != token.NEQ) || !core.IsNil(info, be.Y) {
					return true
				}
				id, ok := ast.Unparen(be.X).(*ast.Ident)
				if !ok {
					return true
				}
				o := info.ObjectOf(id)
				if o == nil {
					return true
				}
				if _, isIface := o.Type().Underlying().(*types.Interface); !isIface {
					return true
				}
				// assigned from a reflective function?
				from := false
				if isErrorType(o.Type()) {
					return true
				}
				for _, a := range ff.Assigns(o) {
					if a.Call != nil {
						if callee := core.CalleeOf(info, a.Call); callee != nil && reflective[callee] && reflIdx[callee][a.Idx] {
							from = true
						}
					}
					if a.Rhs != nil {
						if c, ok := ast.Unparen(a.Rhs).(*ast.CallExpr); ok {
							if callee := core.CalleeOf(info, c); callee != nil && reflective[callee] {
								from = true
							}
						}
					}
				}
				if !from {
					return true
				}
				n++
				perFn++
				key := fmt.Sprintf("typednil:%s/%s#%d", core.FuncName(d), id.Name, perFn)
				// the enclosing condition (if / && / || chain) mentions IsNil on reflect.ValueOf(x)
				var cond ast.Expr = be
				path := core.PathTo(d.Body, be)
				for i := len(path) - 2; i >= 0; i-- {
					if e, ok := path[i].(ast.Expr); ok {
						cond = e
						continue
					}
					if ifs, ok := path[i].(*ast.IfStmt); ok {
						// include the init statement: `if v := reflect.ValueOf(x); x == nil || v.IsNil()`
						okR := reflectNilTested(info, ifs.Cond, ifs.Init, o)
						r.Check(okR, key, p.Pos(be.Pos()), "also tested with reflect IsNil", fmt.Sprintf("%s compares the reflective result %s with nil only: a nil pointer inside the interface passes the test and is dereferenced afterwards", core.FuncName(d), id.Name))
						return true
					}
					break
				}
				okR := reflectNilTested(info, cond, nil, o)
				r.Check(okR, key, p.Pos(be.Pos()), "also tested with reflect IsNil", fmt.Sprintf("%s compares the reflective result %s with nil only: a nil pointer inside the interface passes the test and is dereferenced afterwards", core.FuncName(d), id.Name))
				return true
			})
		}
		if n == 0 {
			core.Fail("no nil comparison of a reflective result found (resolveComponent's drill expected)")
		}
	})
}

// reflectNilTested: cond calls IsNil on a reflect.Value built from variable o (directly, or through
// a variable defined in init as reflect.ValueOf(o)).
func reflectNilTested(info *types.Info, cond ast.Expr, init ast.Stmt, o types.Object) bool {
	valueVars := map[types.Object]bool{}
	isValueOfO := func(e ast.Expr) bool {
		c, ok := ast.Unparen(e).(*ast.CallExpr)
		if !ok || len(c.Args) != 1 {
			return false
		}
		callee := core.CalleeOf(info, c)
		if callee == nil || callee.Name() != "ValueOf" || callee.Pkg() == nil || callee.Pkg().Path() != "reflect" {
			return false
		}
		id, ok := ast.Unparen(c.Args[0]).(*ast.Ident)
		return ok && info.ObjectOf(id) == o
	}
	if as, ok := init.(*ast.AssignStmt); ok && len(as.Lhs) == 1 && len(as.Rhs) == 1 && isValueOfO(as.Rhs[0]) {
		if id, ok := as.Lhs[0].(*ast.Ident); ok {
			valueVars[info.ObjectOf(id)] = true
		}
	}
	found := false
	ast.Inspect(cond, func(n ast.Node) bool {
		c, ok := n.(*ast.CallExpr)
		if !ok {
			return true
		}
		sel, ok := c.Fun.(*ast.SelectorExpr)
		if !ok || sel.Sel.Name != "IsNil" {
			return true
		}
		if isValueOfO(sel.X) {
			found = true
		}
		if id, ok := ast.Unparen(sel.X).(*ast.Ident); ok && valueVars[info.ObjectOf(id)] {
			found = true
		}
		return true
	})
	return found
}
