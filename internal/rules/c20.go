package rules

import (
	"fmt"
	"os"

	"verif/internal/core"
)

// registration deferred until the loaded-document invariants (C02.cover) are available
func init() { _ = c20 }

func c20(r *core.Report) {
	p := r.Prog
	p.BuildSSA()
	cs := newCrashScope(p, "C20", loadEntries(p))
	if os.Getenv("KINLINT_EXPLORE") != "" {
		exploreCrashConstructs(p, cs.reach)
	}
	r.Extra["reachable_functions"] = len(cs.funcs)
	r.Assumption("claim: none of the enumerated crash constructs is reachable unguarded from load / resolve / validate / marshal / internalise; panics or hangs inside encoding/json, the YAML reader, jsonpointer, marshmallow on hostile bytes, memory exhaustion and non-constant indices are not decided")
	r.Assumption("nothing has been validated on these paths: every pointer field of the document model, every reference wrapper's Value and every entry of a document collection may be nil")
	if len(cs.funcs) < 250 {
		r.RunRule("C20.scope", "reachability floor", 1, func() {
			r.Bad("scope", "-", fmt.Sprintf("only %d functions reachable from the load entries", len(cs.funcs)))
		})
		return
	}
	crashPanic(r, cs, map[string]panicExcuse{})
	crashAssert(r, cs)
	crashIndex(r, cs)
	crashLib(r, cs)
	crashRec(r, cs)
	crashNilMode(r, cs, true, 50)
}
