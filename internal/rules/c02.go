package rules

import (
	"fmt"
	"go/ast"
	"go/token"
	"go/types"
	"os"
	"sort"
	"strings"

	"golang.org/x/tools/go/ssa"

	"verif/internal/core"
)

func init() { register("C02", c02) }

// walkerFamily describes one family of per-unit walker functions (the loader's resolve*Ref, the
// internaliser's deref*): for a unit, which function walks it and which function handles a wrapper.
type walkerFamily struct {
	name string
	// walkerOf returns the declaration that walks unit u ("" prefix stripped from chains inside it)
	walkerOf func(u *types.Named) (*ast.FuncDecl, string)
	// walkersOf (optional) overrides walkerOf with several (walker, chain prefix) alternatives, any of
	// which may cover a position; the prefix is a dotted field chain stripped from the front
	walkersOf func(u *types.Named) []walkerAlt
	// handles reports whether call c (inside a walker) hands a value to the handler of wrapper w, and
	// returns the argument expression holding the wrapper
	handles func(info *types.Info, c *ast.CallExpr, w *types.Named) ast.Expr
	// isHelper: a function of the family that is neither a unit walker nor a handler (its body is
	// followed with the caller's field chain substituted for its parameter)
	isHelper func(f *types.Func) bool
}

type walkerAlt struct {
	fd     *ast.FuncDecl
	prefix string
}

// coverage checks, for every unit position, that the unit's walker hands the field to the handler
// of that position's wrapper.
func coverage(r *core.Report, rel string, fam walkerFamily, keyPrefix string) (covered, missing []unitPos) {
	p := r.Prog
	info := p.Pkg(rel).TypesInfo
	_, positions := refUnits(p, rel)
	if os.Getenv("KINLINT_DEBUG") != "" {
		for _, pos := range positions {
			fmt.Println("POS", pos.String(), "->", pos.Wrapper.Obj().Name())
		}
	}
	for _, pos := range positions {
		key := keyPrefix + pos.String()
		var alts []walkerAlt
		if fam.walkersOf != nil {
			alts = fam.walkersOf(pos.Unit)
		} else if fd0, strip0 := fam.walkerOf(pos.Unit); fd0 != nil {
			alts = []walkerAlt{{fd0, strip0}}
		}
		if len(alts) == 0 {
			r.Bad(key, "-", fmt.Sprintf("no %s walker for %s: references below it are never handled", fam.name, pos.Unit.Obj().Name()))
			missing = append(missing, pos)
			continue
		}
		fd := alts[0].fd
		found := false
		strip := ""
		var seen []string
		// chains(fd, prefix): chains handed to the wrapper's handler inside fd, directly or through
		// helper functions of the same family (receiver methods) to which a field chain is passed
		var collect func(fd *ast.FuncDecl, prefix []string, rootParam string, depth int)
		collect = func(fd *ast.FuncDecl, prefix []string, rootParam string, depth int) {
			if depth > 3 {
				return
			}
			ff := core.NewFuncFacts(p, info, fd)
			norm := func(ch []string) ([]string, bool) {
				var c2 []string
				rooted := rootParam == ""
				for _, s := range ch {
					if strings.HasPrefix(s, "<") {
						if rootParam != "" && s == "<"+rootParam+">" {
							rooted = true
						}
						continue
					}
					c2 = append(c2, strings.TrimSuffix(s, "()"))
				}
				return c2, rooted
			}
			ast.Inspect(fd.Body, func(n ast.Node) bool {
				c, ok := n.(*ast.CallExpr)
				if !ok {
					return true
				}
				if arg := fam.handles(info, c, pos.Wrapper); arg != nil {
					for _, ch := range fieldChains(ff, info, arg) {
						c2, rooted := norm(ch)
						if !rooted {
							continue
						}
						full := append(append([]string(nil), prefix...), c2...)
						for len(full) > 0 && full[0] == "Value" && len(prefix) == 0 {
							full = full[1:]
						}
						if depth == 0 {
							var okp bool
							if full, okp = stripPrefix(full, strip); !okp {
								continue
							}
							for len(full) > 0 && full[0] == "Value" {
								full = full[1:]
							}
						}
						seen = append(seen, strings.Join(full, "."))
						if strings.Join(full, ".") == strings.Join(pos.PathNames(), ".") {
							found = true
						}
					}
					return true
				}
				// helper of the same family: a method on the same receiver type that is not a handler
				callee := core.CalleeOf(info, c)
				if callee == nil || !core.InRepo(callee.Pkg()) || fam.isHelper == nil || !fam.isHelper(callee) {
					return true
				}
				hd := p.Decl(callee)
				// which parameter receives a field chain
				k := 0
				for _, fl := range hd.Type.Params.List {
					for _, nm := range fl.Names {
						if k < len(c.Args) {
							for _, ch := range fieldChains(ff, info, c.Args[k]) {
								c2, rooted := norm(ch)
								if !rooted || (len(c2) == 0 && depth == 0) {
									continue
								}
								full := append(append([]string(nil), prefix...), c2...)
								for len(full) > 0 && full[0] == "Value" && len(prefix) == 0 {
									full = full[1:]
								}
								if depth == 0 {
									var okp bool
									if full, okp = stripPrefix(full, strip); !okp {
										continue
									}
									for len(full) > 0 && full[0] == "Value" {
										full = full[1:]
									}
								}
								saveStrip := strip
								strip = ""
								collect(hd, full, nm.Name, depth+1)
								strip = saveStrip
							}
						}
						k++
					}
				}
				return true
			})
		}
		for _, alt := range alts {
			strip = alt.prefix
			collect(alt.fd, nil, "", 0)
		}
		if found {
			covered = append(covered, pos)
			r.OK(key, p.Pos(fd.Pos()), fmt.Sprintf("%s hands it to the %s handler", core.FuncName(fd), pos.Wrapper.Obj().Name()))
		} else {
			missing = append(missing, pos)
			sort.Strings(seen)
			r.Bad(key, p.Pos(fd.Pos()), fmt.Sprintf("%s never passes %s to the %s handler (it handles: %s): a $ref at this position is left as it is", core.FuncName(fd), pos.String(), pos.Wrapper.Obj().Name(), strings.Join(uniq(seen), ", ")))
		}
	}
	return
}

// loaderFamily: the resolve*Ref methods of *Loader.
func loaderFamily(p *core.Prog) walkerFamily {
	info := p.Pkg("openapi3").TypesInfo
	// resolver for wrapper W: method on *Loader whose 2nd parameter is *W
	resolverOf := map[*types.Named]*types.Func{}
	loaderT := p.NamedType("openapi3", "Loader")
	for i := 0; i < loaderT.NumMethods(); i++ {
		m := loaderT.Method(i)
		if !strings.HasPrefix(m.Name(), "resolve") {
			continue
		}
		sig := m.Type().(*types.Signature)
		if sig.Params().Len() < 3 {
			continue
		}
		if n := core.NamedOf(sig.Params().At(1).Type()); n != nil && core.NamedOf(sig.Params().At(0).Type()) != nil && core.NamedOf(sig.Params().At(0).Type()).Obj().Name() == "T" {
			if _, isPtr := sig.Params().At(1).Type().(*types.Pointer); isPtr {
				resolverOf[n] = m
			}
		}
	}
	pk := p.Pkg("openapi3")
	named := func(s string) *types.Named {
		n, _ := pk.Types.Scope().Lookup(s).Type().(*types.Named)
		return n
	}
	return walkerFamily{
		name: "loader",
		walkerOf: func(u *types.Named) (*ast.FuncDecl, string) {
			switch u.Obj().Name() {
			case "T":
				return p.DeclOf("openapi3", "Loader.ResolveRefsIn"), ""
			case "Components":
				return p.DeclOf("openapi3", "Loader.ResolveRefsIn"), "Components"
			case "Operation":
				if m := resolverOf[named("PathItem")]; m != nil {
					return p.Decl(m), "Operations"
				}
				return nil, ""
			case "PathItem":
				if m := resolverOf[u]; m != nil {
					return p.Decl(m), ""
				}
				return nil, ""
			}
			// value type of a wrapper
			for w, m := range resolverOf {
				if v, ok := core.IsRefWrapper(w); ok && v == u {
					return p.Decl(m), ""
				}
			}
			return nil, ""
		},
		handles: func(_ *types.Info, c *ast.CallExpr, w *types.Named) ast.Expr {
			callee := core.CalleeOf(info, c)
			if callee == nil || resolverOf[w] != callee || len(c.Args) < 2 {
				return nil
			}
			return c.Args[1]
		},
		isHelper: func(f *types.Func) bool {
			sig := f.Type().(*types.Signature)
			if sig.Recv() == nil || core.NamedOf(sig.Recv().Type()) != loaderT {
				return false
			}
			for _, m := range resolverOf {
				if m == f {
					return false
				}
			}
			return strings.HasPrefix(f.Name(), "resolve") && f.Name() != "resolveComponent" && f.Name() != "resolveRefPath" && f.Name() != "resolveRef" && f.Name() != "resolveRefAndDocument"
		},
	}
}

func c02(r *core.Report) {
	c02Reset(r)
	c02StopOnError(r)
	c02ExactKey(r)
	p := r.Prog
	r.Assumption("that the object found equals the one designated (JSON-pointer drill-down, path joining for every relative spelling, the raw re-read fallback) and resolution-order effects are value-level and not decided")

	r.RunRule("C02.cover", "the document walk visits every reference position: for every path of fields from a resolution unit (T, Components, PathItem, Operation and the value type of each reference wrapper) through non-unit structs (MediaType, Encoding, AdditionalProperties, the map-likes) to a field that can hold a $ref, the unit's resolve function passes that field (or each of its elements) to the resolver of the position's wrapper; positions are enumerated from the types, so a new field that can hold a reference creates a new obligation", 29, func() {
		coverage(r, "openapi3", loaderFamily(p), "refpos:")
	})

	r.RunRule("C02.kind", "a reference whose target is of the wrong kind is an error, not a crash: the type assertion inside each backtrack closure (`value.(*K)`, run for every reference string that was met while it was being resolved) is comma-ok or dominated by a type test — the in-progress set is keyed by the reference string only, and one string can occur at positions of two kinds", 10, func() {
		p.BuildSSA()
		loaderT := p.NamedType("openapi3", "Loader")
		n := 0
		for i := 0; i < loaderT.NumMethods(); i++ {
			m := loaderT.Method(i)
			if !strings.HasPrefix(m.Name(), "resolve") || !strings.HasSuffix(m.Name(), "Ref") {
				continue
			}
			fn := p.SSAFunc(m)
			for _, an := range fn.AnonFuncs {
				for _, b := range an.Blocks {
					for _, in := range b.Instrs {
						ta, ok := in.(*ssa.TypeAssert)
						if !ok {
							continue
						}
						if _, isPrm := ta.X.(*ssa.Parameter); !isPrm {
							continue
						}
						n++
						key := fmt.Sprintf("backtrack-assert:%s", m.Name())
						if ta.CommaOk || assertDischarged(ta) != "" {
							r.OK(key, p.Pos(ta.Pos()), "checked assertion")
						} else {
							r.Bad(key, p.Pos(ta.Pos()), "the backtrack closure asserts the resolved value to "+ta.AssertedType.String()+" without a check: a reference string that occurs at a position of another kind while it is being resolved makes loading panic instead of failing")
						}
					}
				}
			}
		}
		if n < 10 {
			core.Fail("only %d backtrack assertions found", n)
		}
	})

	c02Sib(r)
	c02Term(r)
	c02Backtrack(r)
	resetScope(r, "C02.resetscope")
	c02Text(r)
	c02Untyped(r)
	c02Pointer(r)
}

// c02Term: resolution terminates – every recursive descent in the resolve family is on the finite
// tree of the unmarshalled document, except across a $ref, where the in-progress set cuts cycles.
func c02Term(r *core.Report) {
	p := r.Prog
	r.RunRule("C02.term", "resolution terminates: in every resolve*Ref function, on the path on which the component carries a $ref, every exit from the `Ref != \"\"` branch into the descent passes either the `Value != nil` short-circuit or the in-progress test (shouldVisitRef) — without a $ref the descent is over the finite tree produced by unmarshalling; whole documents are memoised by location before their references are resolved", 10, func() {
		p.BuildSSA()
		info := p.Pkg("openapi3").TypesInfo
		loaderT := p.NamedType("openapi3", "Loader")
		for i := 0; i < loaderT.NumMethods(); i++ {
			m := loaderT.Method(i)
			if !strings.HasPrefix(m.Name(), "resolve") || !strings.HasSuffix(m.Name(), "Ref") || m.Name() == "resolveRef" {
				continue
			}
			sig := m.Type().(*types.Signature)
			if sig.Params().Len() < 3 {
				continue
			}
			fd := p.Decl(m)
			key := "term:" + m.Name()
			var refIf *ast.IfStmt
			for _, st := range fd.Body.List {
				if ifs, ok := st.(*ast.IfStmt); ok {
					if as, ok := ifs.Init.(*ast.AssignStmt); ok && len(as.Rhs) == 1 {
						if f := core.FieldSel(info, as.Rhs[0]); f != nil && f.Name() == "Ref" {
							refIf = ifs
						}
					}
				}
			}
			if refIf == nil {
				r.Bad(key, p.Pos(fd.Pos()), "no `if ref := component.Ref; ref != \"\"` block found")
				continue
			}
			guardIdx := -1
			for j, st := range refIf.Body.List {
				ifs, ok := st.(*ast.IfStmt)
				if !ok {
					continue
				}
				if u, ok := ast.Unparen(ifs.Cond).(*ast.UnaryExpr); ok && u.Op.String() == "!" {
					if c, ok := ast.Unparen(u.X).(*ast.CallExpr); ok {
						if callee := core.CalleeOf(info, c); callee != nil && callee.Name() == "shouldVisitRef" && core.Terminates(info, ifs.Body.List) {
							guardIdx = j
						}
					}
				}
			}
			okDom := guardIdx >= 0
			for j, st := range refIf.Body.List {
				if j == guardIdx {
					continue // the backtrack closure may mention resolveRefPath
				}
				ast.Inspect(st, func(n ast.Node) bool {
					if c, ok := n.(*ast.CallExpr); ok {
						if callee := core.CalleeOf(info, c); callee != nil && core.InRepo(callee.Pkg()) {
							nm := callee.Name()
							if (strings.HasPrefix(nm, "resolve") || strings.HasPrefix(nm, "load")) && nm != "resolveRefPath" && j < guardIdx {
								okDom = false
							}
						}
					}
					return true
				})
			}
			r.Check(okDom, key, p.Pos(refIf.Pos()), "the $ref branch resolves only past the in-progress test", "in the `Ref != \"\"` branch a resolution step is not preceded by `if !loader.shouldVisitRef(...) { return }`: a reference cycle recurses forever")
		}
		// documents memoised before resolution
		fn := p.SSAFuncOf("openapi3", "Loader.loadFromDataWithPathInternal")
		var store, resolve ssa.Instruction
		for _, b := range fn.Blocks {
			for _, in := range b.Instrs {
				if mu, ok := in.(*ssa.MapUpdate); ok {
					if _, f := loadedField(mu.Map); f == "visitedDocuments" {
						store = mu
					}
				}
				if call, ok := in.(*ssa.Call); ok {
					if sc := call.Common().StaticCallee(); sc != nil && sc.Name() == "ResolveRefsIn" {
						resolve = call
					}
				}
			}
		}
		okMemo := store != nil && resolve != nil && store.Block().Dominates(resolve.Block())
		r.Check(okMemo, "term:documents-memoised", p.Pos(fn.Pos()), "visitedDocuments[uri] is stored before the document's references are resolved", "a document is not recorded in visitedDocuments before its references are resolved: two files referencing each other load each other forever")
	})
}

// c02Sib: the resolvers of the reference wrappers agree on how a $ref is resolved.
func c02Sib(r *core.Report) {
	p := r.Prog
	info := p.Pkg("openapi3").TypesInfo
	r.RunRule("C02.sib", "the resolvers agree: the `if ref := component.Ref; ref != \"\"` block of every resolve*Ref (empty check, Value short-circuit, in-progress test with a backtrack closure, whole-file branch, fragment branch with recursive self-call, deferred unvisit) is the same statement sequence up to the kind name; every deviation from the majority must be a row of the table of confirmed legitimate differences", 9, func() {
		loaderT := p.NamedType("openapi3", "Loader")
		type member struct {
			name, kind string
			stmts      []string
			pos        map[string]ast.Node
			fd         *ast.FuncDecl
		}
		var members []member
		for i := 0; i < loaderT.NumMethods(); i++ {
			m := loaderT.Method(i)
			if !strings.HasPrefix(m.Name(), "resolve") || !strings.HasSuffix(m.Name(), "Ref") || m.Name() == "resolveRef" {
				continue
			}
			sig := m.Type().(*types.Signature)
			if sig.Params().Len() < 3 {
				continue
			}
			wn := core.NamedOf(sig.Params().At(1).Type())
			if wn == nil {
				continue
			}
			fd := p.Decl(m)
			kind := strings.TrimSuffix(wn.Obj().Name(), "Ref")
			mem := member{name: m.Name(), kind: kind, pos: map[string]ast.Node{}, fd: fd}
			// the statements before and inside the $ref block, flattened one level
			var flat func(list []ast.Stmt, depth int)
			done := false
			flat = func(list []ast.Stmt, depth int) {
				for _, s := range list {
					if done {
						return
					}
					if ifs, ok := s.(*ast.IfStmt); ok && depth == 0 {
						// the $ref block: `if ref := X.Ref; ref != ""`
						if as, ok := ifs.Init.(*ast.AssignStmt); ok && len(as.Rhs) == 1 {
							if f := core.FieldSel(info, as.Rhs[0]); f != nil && f.Name() == "Ref" {
								flat(ifs.Body.List, 1)
								done = true
								return
							}
						}
					}
					txt := canonStmt(info, fd, s, wn.Obj().Name(), kind)
					if ifs, ok := s.(*ast.IfStmt); ok && depth >= 1 && depth < 3 {
						hdr := "if " + render(p.Fset, ifs.Cond)
						if ifs.Init != nil {
							hdr = "if " + render(p.Fset, ifs.Init) + "; " + render(p.Fset, ifs.Cond)
						}
						hdr = canonHeader(info, fd, ifs, hdr, wn.Obj().Name(), kind)
						mem.stmts = append(mem.stmts, strings.Repeat(">", depth)+hdr)
						mem.pos[strings.Repeat(">", depth)+hdr] = s
						flat(ifs.Body.List, depth+1)
						if eb, ok := ifs.Else.(*ast.BlockStmt); ok {
							mem.stmts = append(mem.stmts, strings.Repeat(">", depth)+"else")
							flat(eb.List, depth+1)
						}
						continue
					}
					mem.stmts = append(mem.stmts, strings.Repeat(">", depth)+txt)
					mem.pos[strings.Repeat(">", depth)+txt] = s
				}
			}
			flat(fd.Body.List, 0)
			members = append(members, mem)
		}
		if len(members) < 9 {
			core.Fail("only %d resolvers found", len(members))
		}
		// consensus per statement: a statement is "common" if a majority has it
		count := map[string]int{}
		for _, m := range members {
			seen := map[string]bool{}
			for _, s := range m.stmts {
				if !seen[s] {
					seen[s] = true
					count[s]++
				}
			}
		}
		maj := len(members)/2 + 1
		// legitimate differences (member -> substring of the statement -> reason)
		legit := []struct{ member, frag, reason string }{
			{"resolvePathItemRef", "", "a path item is its own wrapper: the resolved struct is copied into place (*pathItem = ...), there is no Value field; its block is checked separately (sib:resolvePathItemRef/*)"},
			{"resolveExampleRef", "isEmpty", "an example component may legally be empty"},
			{"resolveSchemaRef", "visited", "schemas additionally thread the list of visited component names"},
			{"resolveSchemaRef", "resolveKRef", "schemas additionally thread the list of visited component names (extra argument of the recursive call)"},
		}
		// order: the majority statements occur in the same order in every member (a `defer` evaluates
		// its arguments where it stands, so moving it changes what is handed to the waiting positions)
		orderOf := func(m member) string {
			var seq []string
			for _, st := range m.stmts {
				if count[st] >= maj {
					seq = append(seq, st)
				}
			}
			return strings.Join(seq, "\n")
		}
		orderCount := map[string]int{}
		for _, m := range members {
			if m.name != "resolvePathItemRef" {
				orderCount[orderOf(m)]++
			}
		}
		bestOrder, bestN := "", 0
		for o, n := range orderCount {
			if n > bestN {
				bestOrder, bestN = o, n
			}
		}
		for _, m := range members {
			if m.name == "resolvePathItemRef" {
				continue
			}
			key := "sib-order:" + m.name
			if orderOf(m) == bestOrder {
				r.OK(key, p.Pos(m.fd.Pos()), "common statements in the family's order")
				continue
			}
			// subsequence test: a member that merely lacks a tabled statement still has the right order
			want := strings.Split(bestOrder, "\n")
			got := strings.Split(orderOf(m), "\n")
			i := 0
			for _, g := range got {
				for i < len(want) && want[i] != g {
					i++
				}
				if i == len(want) {
					break
				}
				i++
			}
			sub := true
			{
				k := 0
				for _, w := range want {
					if k < len(got) && got[k] == w {
						k++
					}
				}
				sub = k == len(got)
			}
			if sub {
				r.OK(key, p.Pos(m.fd.Pos()), "common statements in the family's order (a tabled statement is absent)")
			} else {
				r.Bad(key, p.Pos(m.fd.Pos()), "the statements of the $ref block are not in the order its sibling resolvers use (e.g. the deferred unvisitRef placed before the resolution evaluates component.Value too early)")
			}
		}
		// the path item resolver: its own shape
		for _, m := range members {
			if m.name != "resolvePathItemRef" {
				continue
			}
			var refIf *ast.IfStmt
			for _, st := range m.fd.Body.List {
				if ifs, ok := st.(*ast.IfStmt); ok {
					if as, ok := ifs.Init.(*ast.AssignStmt); ok && len(as.Rhs) == 1 {
						if f := core.FieldSel(info, as.Rhs[0]); f != nil && f.Name() == "Ref" {
							refIf = ifs
						}
					}
				}
			}
			if refIf == nil {
				r.Bad("sib:resolvePathItemRef/ref-preserved", p.Pos(m.fd.Pos()), "no $ref block")
				continue
			}
			refObj := info.ObjectOf(refIf.Init.(*ast.AssignStmt).Lhs[0].(*ast.Ident))
			preserved, deferLast := false, false
			for j, st := range refIf.Body.List {
				if as, ok := st.(*ast.AssignStmt); ok && len(as.Lhs) == 1 && len(as.Rhs) == 1 {
					if f := core.FieldSel(info, as.Lhs[0]); f != nil && f.Name() == "Ref" {
						if id, ok := ast.Unparen(as.Rhs[0]).(*ast.Ident); ok && info.ObjectOf(id) == refObj {
							preserved = true
						} else {
							preserved = false
						}
					}
				}
				if _, ok := st.(*ast.DeferStmt); ok && j == len(refIf.Body.List)-1 {
					deferLast = true
				}
			}
			r.Check(preserved, "sib:resolvePathItemRef/ref-preserved", p.Pos(refIf.Pos()), "after copying the target into place the path item keeps the reference string it was written with", "after resolution the path item's Ref is not restored to the reference string it was written with: marshalling emits another $ref than the input had")
			r.Check(deferLast, "sib:resolvePathItemRef/defer-last", p.Pos(refIf.Pos()), "the deferred unvisit is the last statement of the $ref block", "the deferred unvisitRef is not the last statement of the $ref block")
		}
		for _, m := range members {
			var extra, missing []string
			have := map[string]bool{}
			for _, s := range m.stmts {
				have[s] = true
				if count[s] < maj {
					extra = append(extra, s)
				}
			}
			for s, c := range count {
				if c >= maj && !have[s] {
					missing = append(missing, s)
				}
			}
			sort.Strings(missing)
			filter := func(list []string) []string {
				var out []string
				for _, s := range list {
					ok := false
					for _, l := range legit {
						if l.member == m.name && (l.frag == "" || strings.Contains(s, l.frag)) {
							ok = true
						}
					}
					if !ok {
						out = append(out, s)
					}
				}
				return out
			}
			extra, missing = filter(extra), filter(missing)
			key := "sib:" + m.name
			if len(extra)+len(missing) == 0 {
				r.OK(key, p.Pos(m.fd.Pos()), fmt.Sprintf("%d statements agree with the majority (or are tabled differences)", len(m.stmts)))
				continue
			}
			pos := m.fd.Pos()
			if len(extra) > 0 {
				if n := m.pos[extra[0]]; n != nil {
					pos = n.Pos()
				}
			}
			r.Bad(key, p.Pos(pos), fmt.Sprintf("deviates from its sibling resolvers: has %q; lacks %q", strings.Join(extra, " | "), strings.Join(missing, " | ")))
		}
	})
}

func abstractKind(s, wrapper, kind string) string {
	s = replaceIdent(s, wrapper, "KREF")
	s = replaceIdent(s, kind, "K")
	s = replaceIdent(s, "errMUST"+kind, "errMUSTK")
	s = replaceIdent(s, "resolve"+kind+"Ref", "resolveKRef")
	return s
}

// canonStmt renders a statement with the kind abstracted and local variable names normalised by
// role (the variable holding the freshly loaded value is named after the kind in each resolver).
func canonStmt(info *types.Info, fd *ast.FuncDecl, s ast.Stmt, wrapper, kind string) string {
	txt := strings.Join(strings.Fields(renderNode(s)), " ")
	// locals declared inside the function body get positional names (per statement)
	locals := map[string]string{}
	ast.Inspect(s, func(n ast.Node) bool {
		if id, ok := n.(*ast.Ident); ok {
			if o, ok := info.ObjectOf(id).(*types.Var); ok && !o.IsField() && o.Pos() > fd.Body.Pos() && o.Pos() < fd.Body.End() {
				if _, seen := locals[id.Name]; !seen {
					locals[id.Name] = fmt.Sprintf("L%d", len(locals))
				}
			}
		}
		return true
	})
	for from, to := range locals {
		txt = replaceIdent(txt, from, to)
	}
	txt = abstractKind(txt, wrapper, kind)
	// `err := f()` vs `err = f()` (named result) is not a difference in what is resolved
	txt = strings.ReplaceAll(txt, " := ", " = ")
	return txt
}

func renderNode(n ast.Node) string {
	var b strings.Builder
	printSrc(&b, n)
	return b.String()
}

func canonHeader(info *types.Info, fd *ast.FuncDecl, ifs *ast.IfStmt, hdr, wrapper, kind string) string {
	locals := map[string]string{}
	for _, part := range []ast.Node{ifs.Init, ifs.Cond} {
		if part == nil || part == ast.Node((*ast.AssignStmt)(nil)) {
			continue
		}
		func() {
			defer func() { recover() }()
			ast.Inspect(part, func(n ast.Node) bool {
				if id, ok := n.(*ast.Ident); ok {
					if o, ok := info.ObjectOf(id).(*types.Var); ok && !o.IsField() && o.Pos() > fd.Body.Pos() && o.Pos() < fd.Body.End() {
						if _, seen := locals[id.Name]; !seen {
							locals[id.Name] = fmt.Sprintf("L%d", len(locals))
						}
					}
				}
				return true
			})
		}()
	}
	for from, to := range locals {
		hdr = replaceIdent(hdr, from, to)
	}
	hdr = abstractKind(hdr, wrapper, kind)
	return strings.ReplaceAll(hdr, " := ", " = ")
}

// stripPrefix removes the dotted prefix from the chain ("" matches anything).
func stripPrefix(chain []string, prefix string) ([]string, bool) {
	if prefix == "" {
		return chain, true
	}
	parts := strings.Split(prefix, ".")
	if len(chain) < len(parts) {
		return chain, false
	}
	for i, p := range parts {
		if chain[i] != p {
			return chain, false
		}
	}
	return chain[len(parts):], true
}

// c02Reset: per-load state does not survive into the next load.
func c02Reset(r *core.Report) {
	p := r.Prog
	info := p.Pkg("openapi3").TypesInfo
	r.RunRule("C02.reset", "every load starts from a clean resolution state: each exported Load* method of Loader either delegates to another exported Load* method or calls resetVisitedPathItemRefs before its first call of a function that resolves references (loadFromURIInternal, loadFromDataWithPathInternal, ResolveRefsIn); a loader reused after a failed load otherwise still holds the failed load's in-progress references and treats them as cycles, leaving references of the next document silently unresolved", 5, func() {
		loaderT := p.NamedType("openapi3", "Loader")
		resolving := map[string]bool{"loadFromURIInternal": true, "loadFromDataWithPathInternal": true, "ResolveRefsIn": true}
		for i := 0; i < loaderT.NumMethods(); i++ {
			m := loaderT.Method(i)
			if !m.Exported() || !strings.HasPrefix(m.Name(), "Load") {
				continue
			}
			fd := p.Decl(m)
			if fd == nil || fd.Body == nil {
				continue
			}
			key := "reset:" + m.Name()
			var resetPos, resolvePos, delegatePos token.Pos
			ast.Inspect(fd.Body, func(n ast.Node) bool {
				c, ok := n.(*ast.CallExpr)
				if !ok {
					return true
				}
				callee := core.CalleeOf(info, c)
				if callee == nil {
					return true
				}
				switch {
				case callee.Name() == "resetVisitedPathItemRefs":
					if resetPos == 0 {
						resetPos = c.Pos()
					}
				case resolving[callee.Name()]:
					if resolvePos == 0 {
						resolvePos = c.Pos()
					}
				case callee.Exported() && strings.HasPrefix(callee.Name(), "Load") && callee.Type().(*types.Signature).Recv() != nil && core.NamedOf(callee.Type().(*types.Signature).Recv().Type()) == loaderT:
					if delegatePos == 0 {
						delegatePos = c.Pos()
					}
				}
				return true
			})
			switch {
			case resolvePos == 0 && delegatePos != 0:
				r.OK(key, p.Pos(fd.Pos()), "delegates to another Load method")
			case resolvePos != 0 && resetPos != 0 && resetPos < resolvePos:
				r.OK(key, p.Pos(fd.Pos()), "resets the resolution state first")
			case resolvePos == 0:
				r.Trivial(key, p.Pos(fd.Pos()), "does not resolve references")
			default:
				r.Bad(key, p.Pos(fd.Pos()), m.Name()+" resolves references without first resetting the loader's in-progress reference state: on a reused loader, references left over from a failed load are taken for cycles and the document is returned with them unresolved")
			}
		}
	})
}

// c02Backtrack: positions that met a reference while it was being resolved are registered as
// callbacks; when the resolution of that reference ends, they are either given the object found
// or the load fails. A callback that is dropped, or run with a nil object, leaves a reference
// unresolved in a document that "loaded successfully" (a cycle of references that designates no
// object: Z -> Z2 -> Z).
func c02Backtrack(r *core.Report) {
	p := r.Prog
	pkg := p.Pkg("openapi3")
	info := pkg.TypesInfo
	r.RunRule("C02.backtrack", "the function that runs the callbacks registered for a reference in progress (the range over a map of slices of functions, each called with the resolved object): (guard) the loop runs only when the object is non-nil, and because the object arrives in an interface the test also excludes a typed nil pointer (reflect IsNil); (unresolved) on the branch that skips the loop a non-nil error is produced when callbacks are registered", 2, func() {
		n := 0
		for _, d := range p.AllDecls("openapi3") {
			var loop *ast.RangeStmt
			ast.Inspect(d.Body, func(nd ast.Node) bool {
				rs, ok := nd.(*ast.RangeStmt)
				if !ok || rs.Value == nil {
					return true
				}
				ix, ok := ast.Unparen(rs.X).(*ast.IndexExpr)
				if !ok {
					return true
				}
				mt, ok := info.TypeOf(ix.X).Underlying().(*types.Map)
				if !ok {
					return true
				}
				sl, ok := mt.Elem().Underlying().(*types.Slice)
				if !ok {
					return true
				}
				if _, ok := sl.Elem().Underlying().(*types.Signature); !ok {
					return true
				}
				// the element is called in the body
				vo := info.ObjectOf(rs.Value.(*ast.Ident))
				called := false
				ast.Inspect(rs.Body, func(m ast.Node) bool {
					if c, ok := m.(*ast.CallExpr); ok {
						if id, ok := ast.Unparen(c.Fun).(*ast.Ident); ok && info.ObjectOf(id) == vo {
							called = true
						}
					}
					return true
				})
				if called {
					loop = rs
				}
				return true
			})
			if loop == nil {
				continue
			}
			n++
			fname := core.FuncName(d)
			// the argument handed to the callbacks
			var argObj types.Object
			ast.Inspect(loop.Body, func(m ast.Node) bool {
				if c, ok := m.(*ast.CallExpr); ok && len(c.Args) == 1 {
					if id, ok := ast.Unparen(c.Fun).(*ast.Ident); ok && info.ObjectOf(id) == info.ObjectOf(loop.Value.(*ast.Ident)) {
						if a, ok := ast.Unparen(c.Args[0]).(*ast.Ident); ok {
							argObj = info.ObjectOf(a)
						}
					}
				}
				return true
			})
			// the if statement one of whose arms holds the loop
			var guard *ast.IfStmt
			var other ast.Stmt
			for _, anc := range core.PathTo(d.Body, loop) {
				if is, ok := anc.(*ast.IfStmt); ok {
					if containsNode(is.Body, loop) {
						guard, other = is, is.Else
					} else if is.Else != nil && containsNode(is.Else, loop) {
						guard, other = is, is.Body
					}
				}
			}
			gk, uk := "backtrack:guard:"+fname, "backtrack:unresolved:"+fname
			if guard == nil || argObj == nil {
				r.Bad(gk, p.Pos(loop.Pos()), "the callbacks are run unconditionally: a reference whose resolution found nothing hands nil to every position waiting for it, and the document loads with unresolved references")
				r.Bad(uk, p.Pos(loop.Pos()), "no branch on which a missing object is reported")
				continue
			}
			// guard: tests argObj against nil, and (interface-typed) uses reflect IsNil on it
			cond := core.ExprStr(guard.Cond)
			testsNil, reflective := false, false
			scan := func(e ast.Node) {
				ast.Inspect(e, func(m ast.Node) bool {
					switch x := m.(type) {
					case *ast.BinaryExpr:
						if x.Op == token.EQL || x.Op == token.NEQ {
							for _, pair := range [][2]ast.Expr{{x.X, x.Y}, {x.Y, x.X}} {
								if id, ok := ast.Unparen(pair[0]).(*ast.Ident); ok && info.ObjectOf(id) == argObj {
									if tv, ok := info.Types[pair[1]]; ok && tv.IsNil() {
										testsNil = true
									}
								}
							}
						}
					case *ast.CallExpr:
						if f := core.CalleeOf(info, x); f != nil && f.FullName() == "(reflect.Value).IsNil" {
							reflective = true
						}
					}
					return true
				})
			}
			scan(guard.Cond)
			if guard.Init != nil {
				scan(guard.Init)
			}
			_, isIface := argObj.Type().Underlying().(*types.Interface)
			switch {
			case !testsNil:
				r.Bad(gk, p.Pos(guard.Pos()), fmt.Sprintf("the condition %q that guards the callback loop does not test the resolved object against nil", cond))
			case isIface && !reflective:
				r.Bad(gk, p.Pos(guard.Pos()), fmt.Sprintf("the condition %q compares an interface with nil only: the resolvers pass their (typed) pointer, so a nil *T is a non-nil interface, the callbacks run and store nil into every position waiting for the reference", cond))
			default:
				r.OK(gk, p.Pos(guard.Pos()), "callbacks run only with a non-nil object (typed nil excluded)")
			}
			// unresolved: the other arm produces an error
			errs := false
			if other != nil {
				ast.Inspect(other, func(m ast.Node) bool {
					switch x := m.(type) {
					case *ast.AssignStmt:
						for i, l := range x.Lhs {
							if i < len(x.Rhs) && info.TypeOf(l) != nil && isErrorType(info.TypeOf(l)) && producesError(info, x.Rhs[i]) {
								errs = true
							}
						}
					case *ast.ReturnStmt:
						for _, e := range x.Results {
							if info.TypeOf(e) != nil && isErrorType(info.TypeOf(e)) && producesError(info, e) {
								errs = true
							}
						}
					}
					return true
				})
			}
			if errs {
				r.OK(uk, p.Pos(guard.Pos()), "a reference that found no object fails the load when positions wait for it")
			} else {
				r.Bad(uk, p.Pos(guard.Pos()), "when the resolution of a reference ends without an object, the positions waiting for it are dropped without an error: a cycle of references that designates no object (Z -> Z2 -> Z) loads successfully with its references unresolved")
			}
		}
		if n == 0 {
			core.Fail("the function that runs the backtrack callbacks was not found in openapi3")
		}
	})
}

// producesError: a call of fmt.Errorf / errors.New or of a repo function returning an error, or the
// address of a composite literal.
func producesError(info *types.Info, e ast.Expr) bool {
	switch x := ast.Unparen(e).(type) {
	case *ast.CallExpr:
		if f := core.CalleeOf(info, x); f != nil {
			switch f.FullName() {
			case "fmt.Errorf", "errors.New":
				return true
			}
		}
	case *ast.UnaryExpr:
		if x.Op == token.AND {
			_, ok := ast.Unparen(x.X).(*ast.CompositeLit)
			return ok
		}
	}
	return false
}

// resetScope: the loader's in-progress reference state (visited references, the path of references
// being resolved, the positions waiting for them) is cleared only from outside a resolution: a
// function that clears it must not be callable, directly or indirectly, from a resolver that has
// registered a reference as in progress -- the outer frames' deferred unvisit calls would then pop
// from an emptied stack (index out of range) or lose their waiting positions.
func resetScope(r *core.Report, rule string) {
	p := r.Prog
	r.RunRule(rule, "who may clear the in-progress reference state: every caller of resetVisitedPathItemRefs is unreachable, in the call graph, from the functions that mark a reference as in progress (the callers of visitRef) — ResolveRefsIn and the internal load functions are re-entered for every external document met during a resolution and must not clear it", 1, func() {
		p.BuildSSA()
		cg := p.CallGraph()
		var reset, visit *ssa.Function
		for _, fn := range allFuncsOf(p.SSAPkg("openapi3")) {
			switch fn.Name() {
			case "resetVisitedPathItemRefs":
				reset = fn
			case "visitRef":
				visit = fn
			}
		}
		if reset == nil || visit == nil {
			core.Fail("resetVisitedPathItemRefs / visitRef not found in openapi3")
		}
		var marks []*ssa.Function
		if n := cg.Nodes[visit]; n != nil {
			for _, e := range n.In {
				marks = append(marks, e.Caller.Func)
			}
		}
		if len(marks) < 9 {
			core.Fail("only %d callers of visitRef found", len(marks))
		}
		inRes := p.Reachable(marks)
		n := cg.Nodes[reset]
		if n == nil || len(n.In) == 0 {
			core.Fail("resetVisitedPathItemRefs has no callers")
		}
		seen := map[string]bool{}
		for _, e := range n.In {
			c := e.Caller.Func
			key := "resetscope:" + shortFn(c)
			if seen[key] {
				continue
			}
			seen[key] = true
			if inRes[c] && lazyInitGuard(p, c, e.Site, reset) {
				r.OK(key, p.Pos(e.Site.Pos()), "clears the state only when it was never initialised (a nil test of a field the reset assigns guards the call): not during a resolution")
				continue
			}
			if inRes[c] {
				r.Bad(key, p.Pos(e.Site.Pos()), fmt.Sprintf("%s clears the in-progress reference state but can run during a resolution (%s): frames that registered a reference as in progress still have their deferred unvisit pending and then pop from the emptied path (slice bounds out of range) or lose the positions waiting for the reference", shortFn(c), entryPathFrom(p, marks, c)))
			} else {
				r.OK(key, p.Pos(e.Site.Pos()), "called from outside any resolution")
			}
		}
	})
}

// entryPathFrom: a shortest call path from one of the roots to target, for the report.
func entryPathFrom(p *core.Prog, roots []*ssa.Function, target *ssa.Function) string {
	cg := p.CallGraph()
	prev := map[*ssa.Function]*ssa.Function{}
	var work []*ssa.Function
	for _, f := range roots {
		if _, ok := prev[f]; !ok {
			prev[f] = nil
			work = append(work, f)
		}
	}
	for len(work) > 0 {
		f := work[0]
		work = work[1:]
		if f == target {
			var path []string
			for x := f; x != nil; x = prev[x] {
				path = append([]string{shortFn(x)}, path...)
			}
			return "call path " + strings.Join(path, " -> ")
		}
		if n := cg.Nodes[f]; n != nil {
			for _, e := range n.Out {
				g := e.Callee.Func
				if _, ok := prev[g]; !ok {
					prev[g] = f
					work = append(work, g)
				}
			}
		}
	}
	return "no path found"
}

// lazyInitGuard: the call of the reset function is guarded by `recv.F == nil` for a field F that the
// reset function assigns (first-use initialisation).
func lazyInitGuard(p *core.Prog, caller *ssa.Function, site ssa.CallInstruction, reset *ssa.Function) bool {
	_, fd, info := declOfSSA(p, caller)
	if fd == nil || fd.Body == nil || site == nil {
		return false
	}
	// fields assigned by reset
	assigned := map[string]bool{}
	if _, rd, _ := declOfSSA(p, reset); rd != nil && rd.Body != nil {
		ast.Inspect(rd.Body, func(n ast.Node) bool {
			if as, ok := n.(*ast.AssignStmt); ok {
				for _, l := range as.Lhs {
					if sel, ok := ast.Unparen(l).(*ast.SelectorExpr); ok {
						assigned[sel.Sel.Name] = true
					}
				}
			}
			return true
		})
	}
	var call ast.Node
	ast.Inspect(fd.Body, func(n ast.Node) bool {
		if c, ok := n.(*ast.CallExpr); ok && c.Pos() <= site.Pos() && site.Pos() < c.End() {
			call = c
		}
		return true
	})
	if call == nil {
		return false
	}
	for _, a := range core.Atoms(core.GuardsAt(info, fd.Body, call)) {
		be, ok := ast.Unparen(a.Expr).(*ast.BinaryExpr)
		if !ok {
			continue
		}
		isNilTest := (be.Op == token.EQL && a.Pos) || (be.Op == token.NEQ && !a.Pos)
		if !isNilTest {
			continue
		}
		for _, pair := range [][2]ast.Expr{{be.X, be.Y}, {be.Y, be.X}} {
			if tv, ok := info.Types[pair[1]]; ok && tv.IsNil() {
				if sel, ok := ast.Unparen(pair[0]).(*ast.SelectorExpr); ok && assigned[sel.Sel.Name] {
					return true
				}
			}
		}
	}
	return false
}

// c02Text: two places where a reference's text decides which object is read.
func c02Text(r *core.Report) {
	p := r.Prog
	info := p.Pkg("openapi3").TypesInfo
	r.RunRule("C02.decoded", "the JSON pointer that is drilled into the document is the percent-decoded fragment: in resolveComponent the string that is split into pointer tokens is assigned only from the Fragment field of a parsed url.URL (net/url decodes it) or from constants — `#/paths/~1pets~1%7Bid%7D` designates the key `/pets/{id}`", 1, func() {
		fd := p.DeclOf("openapi3", "Loader.resolveComponent")
		ff := core.NewFuncFacts(p, info, fd)
		n := 0
		ast.Inspect(fd.Body, func(nd ast.Node) bool {
			c, ok := nd.(*ast.CallExpr)
			if !ok || len(c.Args) != 2 {
				return true
			}
			f := core.CalleeOf(info, c)
			if f == nil || f.FullName() != "strings.Split" {
				return true
			}
			if s, ok := strConst(info, c.Args[1]); !ok || s != "/" {
				return true
			}
			id := core.RootIdent(c.Args[0])
			if id == nil {
				return true
			}
			n++
			key := fmt.Sprintf("decoded:split#%d", n)
			o := info.ObjectOf(id)
			bad, good := "", false
			for _, a := range ff.Assigns(o) {
				if a.Rhs == nil {
					bad = "a multi-value assignment"
					continue
				}
				if _, isConst := strConst(info, a.Rhs); isConst {
					continue
				}
				if sel, ok := ast.Unparen(a.Rhs).(*ast.SelectorExpr); ok && sel.Sel.Name == "Fragment" {
					if nn := core.NamedOf(info.TypeOf(sel.X)); nn != nil && nn.Obj().Pkg() != nil && nn.Obj().Pkg().Path() == "net/url" {
						good = true
						continue
					}
				}
				if ce, ok := ast.Unparen(a.Rhs).(*ast.CallExpr); ok {
					if cf := core.CalleeOf(info, ce); cf != nil && (cf.FullName() == "net/url.PathUnescape" || cf.FullName() == "net/url.QueryUnescape") {
						good = true
						continue
					}
				}
				bad = core.ExprStr(a.Rhs)
			}
			switch {
			case bad != "":
				r.Bad(key, p.Pos(c.Pos()), fmt.Sprintf("the pointer split here (%s) is assigned from %s, not from the decoded Fragment of a parsed URL: a same-document reference written percent-encoded (`#/paths/~1pets~1%%7Bid%%7D`, `#/components/schemas/Pet%%20Record`) is looked up under its encoded spelling and fails to resolve, or resolves to another key", id.Name, bad))
			case good:
				r.OK(key, p.Pos(c.Pos()), "tokens come from url.URL.Fragment")
			default:
				r.Unknown(key, p.Pos(c.Pos()), "no assignment of the split string found")
			}
			return true
		})
		if n == 0 {
			core.Fail("resolveComponent no longer splits a pointer with strings.Split(x, \"/\")")
		}
	})
	r.RunRule("C02.cachekey", "the read cache is keyed by the whole location: in every function of openapi3 that returns a ReadFromURIFunc and keeps the bytes read in a map, the key used for the map is the String() of the very *url.URL that is handed to the underlying reader — a key rebuilt from some of its components (scheme, host, path) makes locations that differ elsewhere (query string, opaque part) share one entry", 1, func() {
		rf := p.NamedType("openapi3", "ReadFromURIFunc")
		n := 0
		for _, d := range p.AllDecls("openapi3") {
			if d.Body == nil || d.Type.Results == nil || len(d.Type.Results.List) != 1 || !types.Identical(info.TypeOf(d.Type.Results.List[0].Type), rf) {
				continue
			}
			ast.Inspect(d.Body, func(nd ast.Node) bool {
				fl, ok := nd.(*ast.FuncLit)
				if !ok {
					return true
				}
				// the location parameter of the closure
				var loc types.Object
				for _, f := range fl.Type.Params.List {
					if pt, ok := info.TypeOf(f.Type).(*types.Pointer); ok {
						if nn := core.NamedOf(pt); nn != nil && nn.Obj().Name() == "URL" && len(f.Names) == 1 {
							loc = info.ObjectOf(f.Names[0])
						}
					}
				}
				if loc == nil {
					return true
				}
				ff := core.NewFuncFacts(p, info, d)
				ast.Inspect(fl.Body, func(m ast.Node) bool {
					ix, ok := m.(*ast.IndexExpr)
					if !ok {
						return true
					}
					mt, ok := info.TypeOf(ix.X).Underlying().(*types.Map)
					if !ok {
						return true
					}
					if sl, ok := mt.Elem().Underlying().(*types.Slice); !ok || !types.Identical(sl.Elem(), types.Typ[types.Byte]) {
						return true
					}
					n++
					key := fmt.Sprintf("cachekey:%s#%d", core.FuncName(d), n)
					e := ast.Unparen(ix.Index)
					if id, ok := e.(*ast.Ident); ok {
						if as := ff.Assigns(info.ObjectOf(id)); len(as) == 1 && as[0].Rhs != nil {
							e = ast.Unparen(as[0].Rhs)
						}
					}
					good := false
					if ce, ok := e.(*ast.CallExpr); ok && len(ce.Args) == 0 {
						if sel, ok := ast.Unparen(ce.Fun).(*ast.SelectorExpr); ok && sel.Sel.Name == "String" {
							if id, ok := ast.Unparen(sel.X).(*ast.Ident); ok && info.ObjectOf(id) == loc {
								good = true
							}
						}
					}
					if good {
						r.OK(key, p.Pos(ix.Pos()), "keyed by location.String()")
					} else {
						r.Bad(key, p.Pos(ix.Pos()), fmt.Sprintf("the cache is indexed with %s, which is not the String() of the location given to the reader: two locations that differ only in what the key leaves out (a query string, an opaque part) get the bytes of whichever was read first, and a reference resolves to the wrong document", core.ExprStr(e)))
					}
					return true
				})
				return false
			})
		}
		if n == 0 {
			core.Fail("no caching ReadFromURIFunc wrapper found in openapi3")
		}
	})
	r.RunRule("C02.fragment", "every reference records its target the same way: in Loader.resolveRefPath, what is stored into the Fragment of the location of a same-document reference is not the reference text itself (which starts with '#'): resolveComponent records the fragment without it, and a cycle-closing reference, whose location comes from resolveRefPath, would otherwise get `doc#%23/components/...` where every other reference to the same object has `doc#/components/...`", 1, func() {
		fd := p.DeclOf("openapi3", "Loader.resolveRefPath")
		refObj := core.ParamObj(info, fd, "ref")
		n := 0
		ast.Inspect(fd.Body, func(nd ast.Node) bool {
			as, ok := nd.(*ast.AssignStmt)
			if !ok {
				return true
			}
			for i, l := range as.Lhs {
				sel, ok := ast.Unparen(l).(*ast.SelectorExpr)
				if !ok || sel.Sel.Name != "Fragment" || i >= len(as.Rhs) && len(as.Rhs) != 1 {
					continue
				}
				rhs := as.Rhs[0]
				if i < len(as.Rhs) {
					rhs = as.Rhs[i]
				}
				n++
				key := fmt.Sprintf("fragment:resolveRefPath#%d", n)
				id, isID := ast.Unparen(rhs).(*ast.Ident)
				r.Check(!(isID && refObj != nil && info.ObjectOf(id) == refObj), key, p.Pos(as.Pos()), "the fragment is taken out of the reference, not the reference itself", "resolveRefPath stores the whole reference text, '#' included, as the fragment of the location: the RefPath of a cycle-closing reference then differs from that of every other reference to the same object")
			}
			return true
		})
		if n == 0 {
			core.Fail("resolveRefPath no longer assigns a Fragment")
		}
		// the fragment of an external reference goes on as reference text and is parsed again by
		// resolveComponent: it must keep its percent escapes until then
		rd := p.DeclOf("openapi3", "Loader.resolveRef")
		k := 0
		ast.Inspect(rd.Body, func(nd ast.Node) bool {
			be, ok := nd.(*ast.BinaryExpr)
			if !ok || be.Op != token.ADD {
				return true
			}
			if sv, isStr := core.ConstStr(info, be.X); !isStr || sv != "#" {
				return true
			}
			k++
			good := false
			if c, ok := ast.Unparen(be.Y).(*ast.CallExpr); ok {
				if sel, ok := ast.Unparen(c.Fun).(*ast.SelectorExpr); ok && sel.Sel.Name == "EscapedFragment" {
					good = true
				}
			}
			r.Check(good, fmt.Sprintf("fragment:resolveRef#%d", k), p.Pos(be.Pos()), "the escaped form of the fragment is handed on", "resolveRef rebuilds the reference text from the decoded fragment ("+core.ExprStr(be.Y)+"), and resolveComponent decodes it again: `other.yaml#/components/schemas/a%2541` resolves to the component `aA` instead of `a%41`")
			return true
		})
		if k == 0 {
			core.Fail("resolveRef no longer rebuilds \"#\" + fragment")
		}
	})
	r.RunRule("C02.doccache", "the document cache designates documents by their whole location and holds loaded documents only: in the Loader method that registers a document in the map of visited documents, the key of every access to that map is the String() of the function's *url.URL parameter (a key rebuilt from some components makes two locations share one document), and every return of an error that comes after the registration is preceded in its block by a delete of that key (a document that failed to parse or to resolve would otherwise be handed out, half built and with a nil error, by the next load of the location)", 3, func() {
		docT := p.NamedType("openapi3", "T")
		n := 0
		for _, d := range p.AllDecls("openapi3") {
			if d.Body == nil || d.Recv == nil {
				continue
			}
			isDocMap := func(e ast.Expr) bool {
				mt, ok := info.TypeOf(e).Underlying().(*types.Map)
				if !ok {
					return false
				}
				pt, ok := mt.Elem().(*types.Pointer)
				return ok && core.NamedOf(pt.Elem()) == docT && types.Identical(mt.Key(), types.Typ[types.String])
			}
			var store *ast.AssignStmt
			ast.Inspect(d.Body, func(nd ast.Node) bool {
				if as, ok := nd.(*ast.AssignStmt); ok && len(as.Lhs) == 1 {
					if ix, ok := ast.Unparen(as.Lhs[0]).(*ast.IndexExpr); ok && isDocMap(ix.X) {
						store = as
					}
				}
				return true
			})
			if store == nil {
				continue
			}
			var loc types.Object
			for _, f := range d.Type.Params.List {
				if pt, ok := info.TypeOf(f.Type).(*types.Pointer); ok {
					if nn := core.NamedOf(pt); nn != nil && nn.Obj().Name() == "URL" && len(f.Names) == 1 {
						loc = info.ObjectOf(f.Names[0])
					}
				}
			}
			ff := core.NewFuncFacts(p, info, d)
			k := 0
			var keyObj types.Object
			ast.Inspect(d.Body, func(nd ast.Node) bool {
				ix, ok := nd.(*ast.IndexExpr)
				if !ok || !isDocMap(ix.X) {
					return true
				}
				n++
				k++
				key := fmt.Sprintf("doccache:key:%s#%d", core.FuncName(d), k)
				e := ast.Unparen(ix.Index)
				if id, ok := e.(*ast.Ident); ok {
					if as := ff.Assigns(info.ObjectOf(id)); len(as) == 1 && as[0].Rhs != nil {
						keyObj = info.ObjectOf(id)
						e = ast.Unparen(as[0].Rhs)
					}
				}
				good := false
				if ce, ok := e.(*ast.CallExpr); ok && len(ce.Args) == 0 && loc != nil {
					if sel, ok := ast.Unparen(ce.Fun).(*ast.SelectorExpr); ok && sel.Sel.Name == "String" {
						if id, ok := ast.Unparen(sel.X).(*ast.Ident); ok && info.ObjectOf(id) == loc {
							good = true
						}
					}
				}
				r.Check(good, key, p.Pos(ix.Pos()), "keyed by location.String()", fmt.Sprintf("the document cache is indexed with %s, which is not the String() of the location being loaded: two locations that differ only in what the key leaves out (a query string) are taken for one document, and references into the second resolve inside the first", core.ExprStr(e)))
				return true
			})
			// error returns after the registration
			k = 0
			ast.Inspect(d.Body, func(nd ast.Node) bool {
				blk, ok := nd.(*ast.BlockStmt)
				if !ok {
					return true
				}
				for i, st := range blk.List {
					ret, ok := st.(*ast.ReturnStmt)
					if !ok || ret.Pos() < store.Pos() || len(ret.Results) != 2 || core.IsNil(info, ret.Results[1]) {
						continue
					}
					n++
					k++
					key := fmt.Sprintf("doccache:unregister:%s#%d", core.FuncName(d), k)
					deleted := false
					for _, prev := range blk.List[:i] {
						es, ok := prev.(*ast.ExprStmt)
						if !ok {
							continue
						}
						c, ok := es.X.(*ast.CallExpr)
						if !ok || len(c.Args) != 2 {
							continue
						}
						if id, ok := ast.Unparen(c.Fun).(*ast.Ident); ok && id.Name == "delete" && isDocMap(c.Args[0]) {
							if kid, ok := ast.Unparen(c.Args[1]).(*ast.Ident); ok && (keyObj == nil || info.ObjectOf(kid) == keyObj) {
								deleted = true
							}
						}
					}
					r.Check(deleted, key, p.Pos(ret.Pos()), "the failed document is taken out of the cache", core.FuncName(d)+" returns an error after registering the document and leaves it in the cache: the next load of the same location with this loader returns the half-built document (unresolved references) with a nil error")
				}
				return true
			})
		}
		if n == 0 {
			core.Fail("no Loader method registering documents found")
		}
	})
}

// c02Untyped: a reference whose pointer stops at an object of the wrong kind fails the load. The
// only data that may be decoded a second time into the kind the reference expects is data the
// model did not type: a map[string]any (an extension, or the raw re-read). A typed container of
// the model (the map of all schemas, a Content map) re-decoded that way becomes an empty object of
// the expected kind instead of an error.
func c02Untyped(r *core.Report) {
	p := r.Prog
	info := p.Pkg("openapi3").TypesInfo
	r.RunRule("C02.untyped", "only untyped data is re-decoded into the expected kind: in resolveComponent the case that converts the object found through JSON (Marshal, then Unmarshal into the expected type) is selected by `reflect.TypeOf(cursor) == reflect.TypeOf(map[string]any{})` — exact type identity with the untyped map, not a test of the reflect.Kind", 1, func() {
		fd := p.DeclOf("openapi3", "Loader.resolveComponent")
		ff := core.NewFuncFacts(p, info, fd)
		n := 0
		ast.Inspect(fd.Body, func(nd ast.Node) bool {
			cc, ok := nd.(*ast.CaseClause)
			if !ok || len(cc.List) != 1 {
				return true
			}
			recodes := false
			for _, st := range cc.Body {
				ast.Inspect(st, func(m ast.Node) bool {
					if c, ok := m.(*ast.CallExpr); ok {
						if f := core.CalleeOf(info, c); f != nil && f.FullName() == "encoding/json.Marshal" {
							recodes = true
						}
					}
					return true
				})
			}
			if !recodes {
				return true
			}
			n++
			key := fmt.Sprintf("untyped:recode#%d", n)
			good := false
			if be, ok := ast.Unparen(cc.List[0]).(*ast.BinaryExpr); ok && be.Op == token.EQL {
				isTypeOfUntyped := func(e ast.Expr) bool {
					e = ast.Unparen(e)
					if id, ok := e.(*ast.Ident); ok {
						if as := ff.Assigns(info.ObjectOf(id)); len(as) == 1 && as[0].Rhs != nil {
							e = ast.Unparen(as[0].Rhs)
						}
					}
					c, ok := e.(*ast.CallExpr)
					if !ok || len(c.Args) != 1 {
						return false
					}
					if f := core.CalleeOf(info, c); f == nil || f.FullName() != "reflect.TypeOf" {
						return false
					}
					cl, ok := ast.Unparen(c.Args[0]).(*ast.CompositeLit)
					if !ok {
						return false
					}
					mt, ok := info.TypeOf(cl).(*types.Map)
					if !ok {
						return false
					}
					_, isIface := mt.Elem().Underlying().(*types.Interface)
					return isIface && mt.Key().String() == "string"
				}
				good = isTypeOfUntyped(be.X) || isTypeOfUntyped(be.Y)
			}
			if good {
				r.OK(key, p.Pos(cc.Pos()), "re-decoding is selected by identity with map[string]any")
			} else {
				r.Bad(key, p.Pos(cc.Pos()), fmt.Sprintf("the re-decoding case is selected by `%s`: typed containers of the model (the map of all schemas, a Content map, a Paths object's map) pass it too, are marshalled and unmarshalled into the expected kind, and a reference such as `#/components/schemas` or one that stops at a map of another kind resolves to an empty object instead of failing with `bad data`", core.ExprStr(cc.List[0])))
			}
			return true
		})
		if n == 0 {
			core.Fail("resolveComponent has no case that re-decodes the object found through encoding/json")
		}
	})
}

// c02Pointer: RFC 6901 decodes "~1" to "/" BEFORE "~0" to "~"; the other order turns the token
// "~01" (the two characters "~1") into "/".
func c02Pointer(r *core.Report) {
	p := r.Prog
	info := p.Pkg("openapi3").TypesInfo
	r.RunRule("C02.pointer", "JSON-pointer tokens are unescaped in the order of RFC 6901: in the function of package openapi3 that replaces both \"~1\" by \"/\" and \"~0\" by \"~\" (strings.Replace / ReplaceAll with constant arguments), the \"~1\" replacement is applied to the text first — it is the inner call of a nested expression, or the earlier statement", 1, func() {
		n := 0
		for _, d := range p.AllDecls("openapi3") {
			if d.Body == nil {
				continue
			}
			type rep struct {
				call  *ast.CallExpr
				depth int
			}
			var r1, r0 *rep
			var walk func(nd ast.Node, depth int)
			walk = func(nd ast.Node, depth int) {
				ast.Inspect(nd, func(m ast.Node) bool {
					c, ok := m.(*ast.CallExpr)
					if !ok || len(c.Args) < 3 {
						return true
					}
					f := core.CalleeOf(info, c)
					if f == nil || (f.FullName() != "strings.Replace" && f.FullName() != "strings.ReplaceAll") {
						return true
					}
					from, ok1 := strConst(info, c.Args[1])
					to, ok2 := strConst(info, c.Args[2])
					if !ok1 || !ok2 {
						return true
					}
					// nesting depth: how many replace calls enclose this one
					dpt := 0
					for _, anc := range core.PathTo(d.Body, c) {
						if ac, ok := anc.(*ast.CallExpr); ok && ac != c {
							if af := core.CalleeOf(info, ac); af != nil && strings.HasPrefix(af.FullName(), "strings.Replace") {
								dpt++
							}
						}
					}
					if from == "~1" && to == "/" {
						r1 = &rep{c, dpt}
					}
					if from == "~0" && to == "~" {
						r0 = &rep{c, dpt}
					}
					return true
				})
			}
			walk(d.Body, 0)
			if r1 == nil || r0 == nil {
				continue
			}
			n++
			key := "pointer:" + core.FuncName(d)
			// applied first = deeper nesting; at equal depth, the earlier position
			first1 := r1.depth > r0.depth || (r1.depth == r0.depth && r1.call.Pos() < r0.call.Pos())
			if first1 {
				r.OK(key, p.Pos(r1.call.Pos()), "\"~1\" is decoded before \"~0\"")
			} else {
				r.Bad(key, p.Pos(r0.call.Pos()), "\"~0\" is decoded before \"~1\": the pointer token `~01`, which stands for the two characters `~1`, first becomes `~1` and then `/` — a reference to a key that contains `~1` fails to resolve, or resolves to the sibling key spelled with `/`")
			}
		}
		if n == 0 {
			core.Fail("no function of openapi3 unescapes both ~1 and ~0 with constant replacements")
		}
	})
}
