package rules

import (
	"fmt"
	"go/ast"
	"go/types"

	"verif/internal/core"
)

// c09LessPos: the positions a comparison function is handed are positions in the slice being sorted
// as it stands at that moment. A comparison that looks the positions up anywhere else (a list of
// keys computed beforehand, "parallel" to the slice) compares the wrong elements as soon as the
// first swap has happened.
func c09LessPos(r *core.Report) {
	p := r.Prog
	r.RunRule("C09.lesspos", "a comparison function indexes only the slice being sorted with the positions it is given: in the closure passed to sort.Slice / sort.SliceStable every index expression whose index is one of the closure's two parameters is on the slice passed as first argument; in the Less(i, j) method of a type of the module handed to sort.Sort / sort.Stable every such index expression is on the receiver — a precomputed list of keys indexed by position goes stale with the first swap (the order of Paths.InMatchingOrder decides which template the gorilla/mux router tries first)", 4, func() {
		rels := []string{"openapi3", "openapi2", "openapi2conv", "openapi3filter", "openapi3gen", "routers", "routers/gorillamux", "routers/legacy", "routers/legacy/pathpattern"}
		lessChecked := map[*types.Func]bool{}
		for _, rel := range rels {
			pkg := p.PkgOpt(rel)
			if pkg == nil {
				continue
			}
			info := pkg.TypesInfo
			for _, d := range p.AllDecls(rel) {
				if d.Body == nil {
					continue
				}
				n := 0
				ast.Inspect(d.Body, func(nd ast.Node) bool {
					c, ok := nd.(*ast.CallExpr)
					if !ok || len(c.Args) == 0 {
						return true
					}
					f := core.CalleeOf(info, c)
					if f == nil || f.Pkg() == nil || f.Pkg().Path() != "sort" {
						return true
					}
					switch f.Name() {
					case "Slice", "SliceStable":
						n++
						key := fmt.Sprintf("lesspos:%s#%d", core.FuncName(d), n)
						fl, ok := ast.Unparen(c.Args[1]).(*ast.FuncLit)
						if !ok || fl.Type.Params == nil {
							r.Unknown(key, p.Pos(c.Pos()), "the comparison is not a function literal")
							return true
						}
						var params []types.Object
						for _, fld := range fl.Type.Params.List {
							for _, nm := range fld.Names {
								params = append(params, info.ObjectOf(nm))
							}
						}
						want := core.ExprStr(ast.Unparen(c.Args[0]))
						bad := foreignPositional(info, fl.Body, params, func(x ast.Expr) bool { return core.ExprStr(ast.Unparen(x)) == want })
						r.Check(bad == "", key, p.Pos(c.Pos()), "the comparison indexes only "+want, fmt.Sprintf("the comparison passed to sort.%s indexes %s with a position of %s: after the first swap position i of the slice being sorted no longer holds the element that %s[i] was computed for, so elements are compared by other elements' keys and the resulting order is wrong for three or more elements that need reordering", f.Name(), bad, want, bad))
					case "Sort", "Stable":
						// the element type's Less, through sort.Reverse(...)
						e := ast.Unparen(c.Args[0])
						for {
							ce, ok := e.(*ast.CallExpr)
							if !ok || len(ce.Args) != 1 {
								break
							}
							if g := core.CalleeOf(info, ce); g != nil && g.Pkg() != nil && g.Pkg().Path() == "sort" && g.Name() == "Reverse" {
								e = ast.Unparen(ce.Args[0])
								continue
							}
							break
						}
						t := info.TypeOf(e)
						named := core.NamedOf(t)
						n++
						key := fmt.Sprintf("lesspos:%s#%d", core.FuncName(d), n)
						if named == nil || named.Obj().Pkg() == nil || !core.InRepo(named.Obj().Pkg()) {
							r.OK(key, p.Pos(c.Pos()), "a sort.Interface of the standard library")
							return true
						}
						var less *types.Func
						for i := 0; i < named.NumMethods(); i++ {
							if named.Method(i).Name() == "Less" {
								less = named.Method(i)
							}
						}
						if less == nil {
							r.Unknown(key, p.Pos(c.Pos()), "Less method of "+named.Obj().Name()+" not found")
							return true
						}
						ld := p.Decl(less)
						if ld == nil || ld.Body == nil || ld.Recv == nil || len(ld.Recv.List) == 0 || len(ld.Recv.List[0].Names) == 0 {
							r.Unknown(key, p.Pos(c.Pos()), "declaration of "+named.Obj().Name()+".Less not found")
							return true
						}
						lessChecked[less] = true
						linfo := p.InfoFor(less.Pkg())
						recv := linfo.ObjectOf(ld.Recv.List[0].Names[0])
						var params []types.Object
						for _, fld := range ld.Type.Params.List {
							for _, nm := range fld.Names {
								params = append(params, linfo.ObjectOf(nm))
							}
						}
						bad := foreignPositional(linfo, ld.Body, params, func(x ast.Expr) bool {
							id := core.RootIdent(x)
							return id != nil && linfo.ObjectOf(id) == recv
						})
						r.Check(bad == "", key, p.Pos(c.Pos()), named.Obj().Name()+".Less indexes only its receiver", fmt.Sprintf("%s.Less indexes %s with a position of the receiver: the list goes stale with the first swap", named.Obj().Name(), bad))
					}
					return true
				})
			}
		}
	})
}

// foreignPositional: the text of the first indexed expression in body whose index is one of params
// and which own() does not accept.
func foreignPositional(info *types.Info, body ast.Node, params []types.Object, own func(ast.Expr) bool) string {
	bad := ""
	ast.Inspect(body, func(n ast.Node) bool {
		ix, ok := n.(*ast.IndexExpr)
		if !ok || bad != "" {
			return bad == ""
		}
		id, ok := ast.Unparen(ix.Index).(*ast.Ident)
		if !ok {
			return true
		}
		isPos := false
		for _, q := range params {
			if q != nil && info.ObjectOf(id) == q {
				isPos = true
			}
		}
		if !isPos {
			return true
		}
		if _, isMap := info.TypeOf(ix.X).Underlying().(*types.Map); isMap {
			return true
		}
		if !own(ix.X) {
			bad = core.ExprStr(ix.X)
		}
		return true
	})
	return bad
}

// c09TryAll: the gorilla/mux router registers one mux route per (server, template) and asks them in
// matching order; a verdict other than "this one" must wait until all were asked.
func c09TryAll(r *core.Report) {
	p := r.Prog
	info := p.Pkg("routers/gorillamux").TypesInfo
	r.RunRule("C09.tryall", "every registered route is tried before the request is refused: in (*gorillamux.Router).FindRoute every `return` inside the loop over the registered mux routes returns a route (a nil error); an error return there — the literal `/a/b` that declares only POST answering `GET /a/b` with method-not-allowed — keeps a later template (`/a/{x}` with GET) from ever being asked", 1, func() {
		fd := p.DeclOf("routers/gorillamux", "Router.FindRoute")
		n := 0
		ast.Inspect(fd.Body, func(nd ast.Node) bool {
			rs, ok := nd.(*ast.RangeStmt)
			if !ok {
				return true
			}
			if fv := core.FieldSel(info, ast.Unparen(rs.X)); fv == nil || fv.Name() != "muxes" {
				return true
			}
			ast.Inspect(rs.Body, func(m ast.Node) bool {
				if _, ok := m.(*ast.FuncLit); ok {
					return false
				}
				ret, ok := m.(*ast.ReturnStmt)
				if !ok || len(ret.Results) == 0 {
					return true
				}
				n++
				key := fmt.Sprintf("tryall:FindRoute/return#%d", n)
				last := ret.Results[len(ret.Results)-1]
				r.Check(core.IsNil(info, last), key, p.Pos(ret.Pos()), "returns the route found", "FindRoute returns the error "+core.ExprStr(last)+" from inside the loop over the registered routes: the routes after this one are never tried, so a request that a later template with this method matches is refused")
				return true
			})
			return true
		})
		if n == 0 {
			core.Fail("FindRoute: no return inside the loop over r.muxes found")
		}
	})
}
