package rules

import (
	"fmt"
	"go/ast"
	"go/constant"
	"go/token"
	"go/types"
	"sort"
	"strings"

	"verif/internal/core"
)

func init() { register("C08", c08) }

// wiringRow: a schema-validation option constructor must be appended under exactly this filter
// option with this polarity ("" = unconditionally).
type wiringRow struct {
	ctor   string // openapi3 constructor name
	option string // Options field ("" = unconditional)
	pos    bool   // polarity of the option atom
}

// checkWiring verifies the option wiring of one filter function against its table.
func checkWiring(r *core.Report, fname string, rows []wiringRow, forbidden []string) {
	p := r.Prog
	info := p.Pkg("openapi3filter").TypesInfo
	fd := p.DeclOf("openapi3filter", fname)
	for _, row := range rows {
		key := fmt.Sprintf("wire:%s/%s", fname, row.ctor)
		calls := callsTo(info, fd.Body, row.ctor)
		if len(calls) != 1 {
			r.Bad(key, p.Pos(fd.Pos()), fmt.Sprintf("%s passes %s to the schema validator %d times, expected once", fname, row.ctor, len(calls)))
			continue
		}
		var opts []string
		okPol := row.option == ""
		for _, a := range core.Atoms(core.GuardsAt(info, fd.Body, calls[0])) {
			ast.Inspect(a.Expr, func(n ast.Node) bool {
				if e, ok := n.(ast.Expr); ok {
					if o := optionFieldRead(info, e); o != "" {
						if strings.HasPrefix(o, "Exclude") && strings.HasSuffix(o, "Body") {
							return true // part-level exclusion: gates the whole body part, not this option
						}
						opts = append(opts, o)
						// polarity: `opt` (bool) or `opt != nil`
						if o == row.option {
							pos := a.Pos
							if be, ok := ast.Unparen(a.Expr).(*ast.BinaryExpr); ok && be.Op == token.EQL {
								pos = !pos
							}
							if pos == row.pos {
								okPol = true
							}
						}
					}
				}
				return true
			})
		}
		sort.Strings(opts)
		// the option is in the list before the list is used: a consumer of the option slice that
		// comes before the append validates without this option
		early := ""
		if path := core.PathTo(fd.Body, calls[0]); path != nil {
			var holder types.Object
			for _, n := range path {
				if as, ok := n.(*ast.AssignStmt); ok && len(as.Lhs) == 1 {
					if id, ok := ast.Unparen(as.Lhs[0]).(*ast.Ident); ok {
						holder = info.ObjectOf(id)
					}
				}
			}
			if holder != nil {
				ast.Inspect(fd.Body, func(n ast.Node) bool {
					c, ok := n.(*ast.CallExpr)
					if !ok || c.Pos() >= calls[0].Pos() {
						return true
					}
					if id, ok := ast.Unparen(c.Fun).(*ast.Ident); ok && id.Name == "append" {
						return true
					}
					for _, a := range c.Args {
						if id, ok := ast.Unparen(a).(*ast.Ident); ok && info.ObjectOf(id) == holder && early == "" {
							early = core.ExprStr(c.Fun)
						}
					}
					return true
				})
			}
		}
		switch {
		case early != "":
			r.Bad(key, p.Pos(calls[0].Pos()), fmt.Sprintf("%s is added to the option list after %s has already been called with that list: that validation runs without the option", row.ctor, early))
		case row.option == "" && len(opts) > 0:
			r.Bad(key, p.Pos(calls[0].Pos()), fmt.Sprintf("%s must be passed unconditionally but is conditioned on %v", row.ctor, opts))
		case row.option != "" && (len(opts) != 1 || opts[0] != row.option || !okPol):
			r.Bad(key, p.Pos(calls[0].Pos()), fmt.Sprintf("%s must be passed exactly when Options.%s is %v; found conditions on %v", row.ctor, row.option, row.pos, opts))
		default:
			r.OK(key, p.Pos(calls[0].Pos()), fmt.Sprintf("passed iff %s==%v", row.option, row.pos))
		}
	}
	for _, f := range forbidden {
		key := fmt.Sprintf("wire:%s/not-%s", fname, f)
		r.Check(len(callsTo(info, fd.Body, f)) == 0, key, p.Pos(fd.Pos()), f+" is not used on this side", fname+" passes "+f+", which belongs to the other direction")
	}
}

func constVal(info *types.Info, e ast.Expr) string {
	if tv, ok := info.Types[e]; ok && tv.Value != nil {
		if tv.Value.Kind() == constant.String {
			return constant.StringVal(tv.Value)
		}
		return tv.Value.ExactString()
	}
	return ""
}

func c08(r *core.Report) {
	lookupFolding(r, "C08.lookup")
	requiredExemption(r, "C08.reqexempt")
	c08AsResponse(r)
	c08LookupKeys(r)
	p := r.Prog
	info := p.Pkg("openapi3filter").TypesInfo
	oinfo := p.Pkg("openapi3").TypesInfo
	na := core.NewNilAnalysis(p)
	r.Assumption("header decoding, content-type matching inside Content.Get and the schema verdict are not decided here (C05, C06, C01)")

	r.RunRule("C08.order", "status lookup order: Responses.Status returns the exact-code entry when present, consults the class entry only after the exact lookup failed and only for 100..599, the class patterns are exactly 1XX..5XX; ValidateResponse consults Default() only when Status() returned nil and rejects an undocumented status only under IncludeResponseStatus", 6, func() {
		fd := p.DeclOf("openapi3", "Responses.Status")
		ff := core.NewFuncFacts(p, oinfo, fd)
		statusObj := core.ParamObj(oinfo, fd, "status")
		var exact, class *ast.ReturnStmt
		ast.Inspect(fd.Body, func(n ast.Node) bool {
			ret, ok := n.(*ast.ReturnStmt)
			if !ok || len(ret.Results) != 1 || core.IsNil(oinfo, ret.Results[0]) {
				return true
			}
			if exact == nil {
				exact = ret
			} else {
				class = ret
			}
			return true
		})
		if exact == nil || class == nil {
			core.Fail("Responses.Status: expected two non-nil returns")
		}
		// exact: guarded by X != nil where X = Value(FormatInt(status))
		okExact := false
		for _, a := range core.Atoms(core.GuardsAt(oinfo, fd.Body, exact)) {
			if be, ok := ast.Unparen(a.Expr).(*ast.BinaryExpr); ok && be.Op == token.NEQ && a.Pos && core.IsNil(oinfo, be.Y) {
				rs := ff.Roots(be.X, false)
				hasValue, hasFmt := false, false
				for f := range rs.Funcs {
					if f.Name() == "Value" {
						hasValue = true
					}
					if f.Name() == "FormatInt" || f.Name() == "Itoa" {
						hasFmt = true
					}
				}
				if hasValue && hasFmt && rs.Objs[statusObj] && usesSameExpr(oinfo, be.X, exact.Results[0]) {
					okExact = true
				}
			}
		}
		r.Check(okExact, "order:exact-first", p.Pos(exact.Pos()), "exact entry returned when present", "the first lookup is not `the entry keyed by the decimal status, when present`")
		r.Check(exact.Pos() < class.Pos(), "order:exact-before-class", p.Pos(class.Pos()), "class lookup follows the failed exact lookup", "the class lookup precedes the exact lookup")
		// class: range guard
		lo, hi := "", ""
		for _, a := range core.Atoms(core.GuardsAt(oinfo, fd.Body, class)) {
			be, ok := ast.Unparen(a.Expr).(*ast.BinaryExpr)
			if !ok || !a.Pos {
				continue
			}
			x, y := be.X, be.Y
			op := be.Op
			cx, cy := constVal(oinfo, x), constVal(oinfo, y)
			if cx != "" && usesObj(oinfo, y, statusObj) {
				// c OP status  ->  status flip(OP) c
				op = flipOp(op)
				cy = cx
			} else if !(cy != "" && usesObj(oinfo, x, statusObj)) {
				continue
			}
			switch op {
			case token.GTR:
				lo = "gt " + cy
			case token.GEQ:
				lo = "ge " + cy
			case token.LSS:
				hi = "lt " + cy
			case token.LEQ:
				hi = "le " + cy
			}
		}
		r.Check((lo == "gt 99" || lo == "ge 100") && (hi == "lt 600" || hi == "le 599"), "order:class-range", p.Pos(class.Pos()), "class lookup for 100..599", fmt.Sprintf("the class lookup must apply to every status 100..599; found bounds [%s, %s]", lo, hi))
		// case list
		var pats []string
		for _, n := range core.PathTo(fd.Body, class) {
			if cc, ok := n.(*ast.CaseClause); ok {
				for _, e := range cc.List {
					pats = append(pats, constVal(oinfo, e))
				}
			}
		}
		sort.Strings(pats)
		r.Check(strings.Join(pats, ",") == "1XX,2XX,3XX,4XX,5XX", "order:class-patterns", p.Pos(class.Pos()), "patterns 1XX..5XX", "class patterns are "+strings.Join(pats, ",")+", expected 1XX,2XX,3XX,4XX,5XX")
		// ValidateResponse: Default() only under Status()==nil
		vr := p.DeclOf("openapi3filter", "ValidateResponse")
		fv := core.NewFuncFacts(p, info, vr)
		def := callsTo(info, vr.Body, "Default")
		okDef := len(def) == 1
		if okDef {
			okDef = false
			for _, a := range core.Atoms(core.GuardsAt(info, vr.Body, def[0])) {
				if be, ok := ast.Unparen(a.Expr).(*ast.BinaryExpr); ok && be.Op == token.EQL && a.Pos && core.IsNil(info, be.Y) {
					for f := range fv.Roots(be.X, false).Funcs {
						if f.Name() == "Status" {
							okDef = true
						}
					}
				}
			}
		}
		r.Check(okDef, "order:default-last", p.Pos(vr.Pos()), "Default() consulted only when Status() == nil", "the default response is not consulted exactly when the status lookup found nothing")
		// undocumented status: nil return under !IncludeResponseStatus, error otherwise
		okInc := false
		ast.Inspect(vr.Body, func(n ast.Node) bool {
			ifs, ok := n.(*ast.IfStmt)
			if !ok {
				return true
			}
			c := ast.Unparen(ifs.Cond)
			if u, ok := c.(*ast.UnaryExpr); ok && u.Op == token.NOT && optionFieldRead(info, u.X) == "IncludeResponseStatus" && len(ifs.Body.List) == 1 {
				if ret, ok := ifs.Body.List[0].(*ast.ReturnStmt); ok && len(ret.Results) == 1 && core.IsNil(info, ret.Results[0]) {
					list, idx := listOf(vr.Body, ifs)
					if idx+1 < len(list) {
						if r2, ok := list[idx+1].(*ast.ReturnStmt); ok && len(r2.Results) == 1 && na.Classify(fv, r2.Results[0], r2) == core.NonNil {
							// and the whole thing under responseRef == nil
							for _, a := range core.Atoms(core.GuardsAt(info, vr.Body, ifs)) {
								if be, ok := ast.Unparen(a.Expr).(*ast.BinaryExpr); ok && be.Op == token.EQL && a.Pos && core.IsNil(info, be.Y) {
									okInc = true
								}
							}
						}
					}
				}
			}
			return true
		})
		r.Check(okInc, "order:strict-status", p.Pos(vr.Pos()), "undocumented status passes unless IncludeResponseStatus", "an undocumented status is not `accepted unless IncludeResponseStatus, rejected otherwise`")
	})

	r.RunRule("C08.skip", "the constants that short-circuit response validation are exactly method HEAD and statuses {301, 304, 307, 308}", 2, func() {
		vr := p.DeclOf("openapi3filter", "ValidateResponse")
		var methods, statuses []string
		ast.Inspect(vr.Body, func(n ast.Node) bool {
			sw, ok := n.(*ast.SwitchStmt)
			if !ok || sw.Tag == nil {
				return true
			}
			for _, c := range sw.Body.List {
				cc := c.(*ast.CaseClause)
				retNil := false
				for _, s := range cc.Body {
					if ret, ok := s.(*ast.ReturnStmt); ok && len(ret.Results) == 1 && core.IsNil(info, ret.Results[0]) {
						retNil = true
					}
				}
				if !retNil {
					continue
				}
				for _, e := range cc.List {
					v := constVal(info, e)
					if f := core.FieldSel(info, sw.Tag); f != nil && f.Name() == "Method" {
						methods = append(methods, v)
					} else {
						statuses = append(statuses, v)
					}
				}
			}
			return true
		})
		sort.Strings(statuses)
		r.Check(strings.Join(methods, ",") == "HEAD", "skip:methods", p.Pos(vr.Pos()), "HEAD", "methods skipping response validation: "+strings.Join(methods, ",")+", expected HEAD")
		r.Check(strings.Join(statuses, ",") == "301,304,307,308", "skip:statuses", p.Pos(vr.Pos()), "301,304,307,308", "statuses skipping response validation: "+strings.Join(statuses, ",")+", expected 301,304,307,308")
	})

	r.RunRule("C08.hdr", "every declared header other than Content-Type is checked: the header loop excludes only the Content-Type constant, a failing header returns its error, validateResponseHeader validates the decoded value exactly when found and returns the `missing` error exactly when !found && Required", 4, func() {
		vr := p.DeclOf("openapi3filter", "ValidateResponse")
		fv := core.NewFuncFacts(p, info, vr)
		calls := callsTo(info, vr.Body, "validateResponseHeader")
		if len(calls) != 1 {
			core.Fail("validateResponseHeader is called %d times", len(calls))
		}
		// the name passed ranges over keys of response.Headers filtered only by != headerCT
		okLoop := false
		ast.Inspect(vr.Body, func(n ast.Node) bool {
			rs, ok := n.(*ast.RangeStmt)
			if !ok || !rootsHaveField(fv, rs.X, "Response", "Headers") {
				return true
			}
			// body: single if k != headerCT { append }
			if len(rs.Body.List) == 1 {
				if ifs, ok := rs.Body.List[0].(*ast.IfStmt); ok {
					if be, ok := ast.Unparen(ifs.Cond).(*ast.BinaryExpr); ok && be.Op == token.NEQ {
						if headerConst(p, info, be.Y) == "Content-Type" || headerConst(p, info, be.X) == "Content-Type" {
							okLoop = true
						}
					}
				}
			}
			return true
		})
		r.Check(okLoop, "hdr:all-but-content-type", p.Pos(vr.Pos()), "header names = declared headers minus Content-Type", "the set of checked headers is not `all declared headers except Content-Type`")
		checkErrPropagates(r, na, fv, vr, calls[0], "hdr:error-returned")
		vh := p.DeclOf("openapi3filter", "validateResponseHeader")
		fh := core.NewFuncFacts(p, info, vh)
		visit := callsTo(info, vh.Body, "VisitJSON")
		okFound := len(visit) == 1
		if okFound {
			okFound = false
			for _, a := range core.Atoms(core.GuardsAt(info, vh.Body, visit[0])) {
				if id, ok := ast.Unparen(a.Expr).(*ast.Ident); ok && a.Pos && id.Name == "found" {
					okFound = true
				}
			}
			if ifs, _ := enclosingIfInit(vh.Body, visit[0]); ifs != nil {
				okRet := false
				for _, s := range ifs.Body.List {
					if ret, ok := s.(*ast.ReturnStmt); ok && na.Classify(fh, ret.Results[0], ret) == core.NonNil {
						okRet = true
					}
				}
				okFound = okFound && okRet
			}
		}
		r.Check(okFound, "hdr:validated-when-found", p.Pos(vh.Pos()), "VisitJSON under `found`, its error returned", "a found header value is not validated against its schema (or the error is dropped)")
		okMissing := false
		ast.Inspect(vh.Body, func(n ast.Node) bool {
			ret, ok := n.(*ast.ReturnStmt)
			if !ok || len(ret.Results) != 1 {
				return true
			}
			var notFound, required bool
			extra := false
			for _, a := range core.Atoms(core.GuardsAt(info, vh.Body, ret)) {
				if id, ok := ast.Unparen(a.Expr).(*ast.Ident); ok && !a.Pos && id.Name == "found" {
					notFound = true
					continue
				}
				if f := core.FieldSel(info, a.Expr); f != nil && f.Name() == "Required" && a.Pos {
					required = true
					continue
				}
				if a.Pos {
					extra = true
				}
			}
			if notFound && required && !extra && na.Classify(fh, ret.Results[0], ret) == core.NonNil {
				okMissing = true
			}
			return true
		})
		r.Check(okMissing, "hdr:missing-required", p.Pos(vh.Pos()), "error returned when !found && Required", "a missing required response header is not rejected")
	})

	r.RunRule("C08.body", "the response body stays readable: the body is read with io.ReadAll, the bytes read are handed to SetBodyBytes, and every return after the read other than the read's own error exit follows that call; the body schema is visited as a response", 3, func() {
		vr := p.DeclOf("openapi3filter", "ValidateResponse")
		var readStmt ast.Stmt
		var dataObj types.Object
		top := vr.Body.List
		readIdx, setIdx := -1, -1
		for i, s := range top {
			as, ok := s.(*ast.AssignStmt)
			if ok && len(as.Rhs) == 1 {
				if c, ok := as.Rhs[0].(*ast.CallExpr); ok {
					if callee := core.CalleeOf(info, c); callee != nil && callee.Name() == "ReadAll" {
						readStmt, readIdx = s, i
						if id, ok := as.Lhs[0].(*ast.Ident); ok {
							dataObj = info.ObjectOf(id)
						}
					}
				}
			}
			if es, ok := s.(*ast.ExprStmt); ok {
				if c, ok := es.X.(*ast.CallExpr); ok {
					if callee := core.CalleeOf(info, c); callee != nil && callee.Name() == "SetBodyBytes" && len(c.Args) == 1 && dataObj != nil && usesObj(info, c.Args[0], dataObj) {
						setIdx = i
					}
				}
			}
		}
		_ = readStmt
		r.Check(readIdx >= 0, "body:read-all", p.Pos(vr.Pos()), "io.ReadAll(body) at top level", "the response body is not read in full with io.ReadAll at the top level of ValidateResponse: the bytes put back may be incomplete")
		r.Check(setIdx > readIdx && readIdx >= 0, "body:restored", p.Pos(vr.Pos()), "SetBodyBytes(data) follows the read", "the bytes read are not put back with SetBodyBytes")
		// between read and set: only the read error exit
		okBetween := readIdx >= 0 && setIdx > readIdx
		for i := readIdx + 1; okBetween && i < setIdx; i++ {
			ifs, ok := top[i].(*ast.IfStmt)
			if !ok || !isErrNotNil(info, ifs.Cond) {
				ast.Inspect(top[i], func(n ast.Node) bool {
					if _, ok := n.(*ast.ReturnStmt); ok {
						okBetween = false
					}
					return true
				})
			}
		}
		r.Check(okBetween, "body:no-exit-before-restore", p.Pos(vr.Pos()), "only the read-error exit precedes SetBodyBytes", "a return between the read and SetBodyBytes leaves the response body consumed")
	})

	r.RunRule("C08.wire", "filter options reach the schema validator unchanged in meaning on the response side", 4, func() {
		checkWiring(r, "ValidateResponse", []wiringRow{
			{"MultiErrors", "MultiError", true},
			{"SetSchemaErrorMessageCustomizer", "customSchemaErrorFunc", true},
			{"DisableWriteOnlyValidation", "ExcludeWriteOnlyValidations", true},
			{"VisitAsResponse", "", true},
		}, []string{"VisitAsRequest", "DisableReadOnlyValidation", "DefaultsSet"})
		// body exclusion guards exactly the body part
		vr := p.DeclOf("openapi3filter", "ValidateResponse")
		okEx := false
		ast.Inspect(vr.Body, func(n ast.Node) bool {
			ifs, ok := n.(*ast.IfStmt)
			if ok && optionFieldRead(info, ast.Unparen(ifs.Cond)) == "ExcludeResponseBody" && len(ifs.Body.List) == 1 {
				if ret, ok := ifs.Body.List[0].(*ast.ReturnStmt); ok && core.IsNil(info, ret.Results[0]) {
					// must come after the header loop
					hc := callsTo(info, vr.Body, "validateResponseHeader")
					if len(hc) == 1 && hc[0].Pos() < ifs.Pos() {
						okEx = true
					}
				}
			}
			return true
		})
		r.Check(okEx, "wire:ValidateResponse/ExcludeResponseBody", p.Pos(vr.Pos()), "ExcludeResponseBody returns after the headers were checked", "ExcludeResponseBody does not remove exactly the body check")
	})

	c06Mirror(r, "C08.mirror")
}

// usesSameExpr: both expressions are the same identifier object.
func usesSameExpr(info *types.Info, a, b ast.Expr) bool {
	ia, ok1 := ast.Unparen(a).(*ast.Ident)
	ib, ok2 := ast.Unparen(b).(*ast.Ident)
	return ok1 && ok2 && info.ObjectOf(ia) == info.ObjectOf(ib)
}

// checkErrPropagates: `if err := call; err != nil { return <non-nil using err> }`.
func checkErrPropagates(r *core.Report, na *core.NilAnalysis, ff *core.FuncFacts, fd *ast.FuncDecl, call *ast.CallExpr, key string) {
	p := r.Prog
	info := ff.Info
	ifs, errID := enclosingIfInit(fd.Body, call)
	if ifs == nil {
		r.Bad(key, p.Pos(call.Pos()), "the call's error is not bound and tested")
		return
	}
	good := false
	for _, s := range ifs.Body.List {
		if ret, ok := s.(*ast.ReturnStmt); ok && len(ret.Results) >= 1 {
			last := ret.Results[len(ret.Results)-1]
			if usesObj(info, last, info.ObjectOf(errID)) && na.Classify(ff, last, ret) == core.NonNil {
				good = true
			}
		}
	}
	r.Check(good, key, p.Pos(ifs.Pos()), "error returned", "the error of "+core.ExprStr(call.Fun)+" is not returned")
}

// c08AsResponse: everything that is checked against a schema on the response side is checked "as a
// response" (write-only properties forbidden and not required, read-only ones allowed): the body
// and the headers alike.
func c08AsResponse(r *core.Report) {
	p := r.Prog
	info := p.Pkg("openapi3filter").TypesInfo
	r.RunRule("C08.asresponse", "headers and body are read as a response: every VisitJSON call in ValidateResponse and the functions it calls within validate_response.go is given the option VisitAsResponse() — in the argument list itself, or through a variable every assignment of which appends it", 2, func() {
		seen := map[*ast.FuncDecl]bool{}
		var work []*ast.FuncDecl
		start := p.DeclOf("openapi3filter", "ValidateResponse")
		work = append(work, start)
		file := p.Fset.Position(start.Pos()).Filename
		for len(work) > 0 {
			d := work[0]
			work = work[1:]
			if seen[d] {
				continue
			}
			seen[d] = true
			ff := core.NewFuncFacts(p, info, d)
			k := 0
			ast.Inspect(d.Body, func(n ast.Node) bool {
				c, ok := n.(*ast.CallExpr)
				if !ok {
					return true
				}
				if f := core.CalleeOf(info, c); f != nil {
					if f.Pkg() != nil && core.InRepo(f.Pkg()) && f.Pkg().Name() == "openapi3filter" {
						if fd := p.Decl(f); fd != nil && fd.Body != nil && p.Fset.Position(fd.Pos()).Filename == file {
							work = append(work, fd)
						}
					}
					if f.Name() != "VisitJSON" {
						return true
					}
				} else {
					return true
				}
				k++
				key := fmt.Sprintf("asresponse:%s#%d", core.FuncName(d), k)
				has := false
				var look func(e ast.Expr, depth int)
				look = func(e ast.Expr, depth int) {
					if depth > 4 {
						return
					}
					ast.Inspect(e, func(m ast.Node) bool {
						switch x := m.(type) {
						case *ast.CallExpr:
							if g := core.CalleeOf(info, x); g != nil && g.Name() == "VisitAsResponse" {
								has = true
							}
						case *ast.Ident:
							if o := info.ObjectOf(x); o != nil {
								if _, isSlice := o.Type().Underlying().(*types.Slice); isSlice {
									for _, a := range ff.Assigns(o) {
										if a.Rhs != nil && depth < 4 {
											// only a variable all of whose (re)assignments keep the option counts:
											// look at the first assignment that mentions the option
											look(a.Rhs, depth+1)
										}
									}
								}
							}
						}
						return true
					})
				}
				for _, a := range c.Args[1:] {
					look(a, 0)
				}
				if has {
					r.OK(key, p.Pos(c.Pos()), "validated as a response")
				} else {
					r.Bad(key, p.Pos(c.Pos()), fmt.Sprintf("%s validates a value of the response without VisitAsResponse(): a required write-only property is demanded of it and a write-only property that is present is accepted — the opposite of what a response may contain", core.FuncName(d)))
				}
				return true
			})
		}
	})
}
