package core

import (
	"fmt"
	"go/ast"
	"go/token"
	"go/types"
	"os"
)

// FuncFacts holds per-function AST facts: assignments per local object, enclosing ranges.
type FuncFacts struct {
	P    *Prog
	Info *types.Info
	FD   *ast.FuncDecl
	Body ast.Node
	asg  map[types.Object][]Assign
}

// Assign is one assignment to a local object.
type Assign struct {
	Rhs        ast.Expr   // nil for range vars / multi-value
	Stmt       ast.Node   // the statement
	Ranges     []ast.Expr // range expressions of enclosing range statements (control dependence)
	RangeOf    ast.Expr   // when the object is the key/value variable of `range X`
	IsKey      bool
	Call       *ast.CallExpr // for `a, b := f()`: the call, Idx the result index
	Idx        int
	TypeAssert *ast.TypeAssertExpr // v, ok := x.(T): for v (Idx 0) / ok (Idx 1)
	MapIndex   *ast.IndexExpr      // v, ok := m[k]
}

// NewFuncFacts indexes a function declaration.
func NewFuncFacts(p *Prog, info *types.Info, fd *ast.FuncDecl) *FuncFacts {
	f := &FuncFacts{P: p, Info: info, FD: fd, Body: fd.Body, asg: map[types.Object][]Assign{}}
	var ranges []ast.Expr
	var walk func(n ast.Node)
	walk = func(n ast.Node) {
		ast.Inspect(n, func(n ast.Node) bool {
			switch x := n.(type) {
			case *ast.RangeStmt:
				for i, e := range []ast.Expr{x.Key, x.Value} {
					if id, ok := e.(*ast.Ident); ok && id.Name != "_" {
						if o := info.ObjectOf(id); o != nil {
							f.asg[o] = append(f.asg[o], Assign{Stmt: x, RangeOf: x.X, IsKey: i == 0, Ranges: append([]ast.Expr(nil), ranges...)})
						}
					}
				}
				ranges = append(ranges, x.X)
				walk(x.Body)
				ranges = ranges[:len(ranges)-1]
				return false
			case *ast.AssignStmt:
				f.recordAssign(x, ranges)
			case *ast.TypeSwitchStmt:
				// v := x.(type): each clause has its own implicit object for v, all bound to x
				if as, ok := x.Assign.(*ast.AssignStmt); ok && len(as.Rhs) == 1 {
					if ta, ok := as.Rhs[0].(*ast.TypeAssertExpr); ok {
						for _, c := range x.Body.List {
							if o := info.Implicits[c]; o != nil {
								f.asg[o] = append(f.asg[o], Assign{Stmt: x, Rhs: ta.X, Ranges: append([]ast.Expr(nil), ranges...)})
							}
						}
					}
				}
			case *ast.ValueSpec:
				for i, nm := range x.Names {
					if o := info.Defs[nm]; o != nil {
						a := Assign{Stmt: x, Ranges: append([]ast.Expr(nil), ranges...)}
						if i < len(x.Values) {
							a.Rhs = x.Values[i]
						}
						f.asg[o] = append(f.asg[o], a)
					}
				}
			case *ast.IncDecStmt:
				if id, ok := x.X.(*ast.Ident); ok {
					if o := info.ObjectOf(id); o != nil {
						f.asg[o] = append(f.asg[o], Assign{Stmt: x, Rhs: x.X, Ranges: append([]ast.Expr(nil), ranges...)})
					}
				}
			}
			return true
		})
	}
	if fd.Body != nil {
		walk(fd.Body)
	}
	return f
}

func (f *FuncFacts) recordAssign(x *ast.AssignStmt, ranges []ast.Expr) {
	info := f.Info
	for i, l := range x.Lhs {
		id, ok := l.(*ast.Ident)
		if !ok || id.Name == "_" {
			continue
		}
		o := info.ObjectOf(id)
		if o == nil {
			continue
		}
		a := Assign{Stmt: x, Ranges: append([]ast.Expr(nil), ranges...), Idx: i}
		if len(x.Rhs) == len(x.Lhs) {
			a.Rhs = x.Rhs[i]
			if x.Tok != token.ASSIGN && x.Tok != token.DEFINE {
				// op-assign: x += y : depends on both
				a.Rhs = &ast.BinaryExpr{X: l, Op: token.ADD, Y: x.Rhs[i]}
			}
		} else if len(x.Rhs) == 1 {
			switch r := ast.Unparen(x.Rhs[0]).(type) {
			case *ast.CallExpr:
				a.Call = r
			case *ast.TypeAssertExpr:
				a.TypeAssert = r
			case *ast.IndexExpr:
				a.MapIndex = r
			}
		}
		f.asg[o] = append(f.asg[o], a)
	}
}

// Assigns returns the assignments to obj inside the function.
func (f *FuncFacts) Assigns(o types.Object) []Assign { return f.asg[o] }

// RootSet is what an expression ultimately depends on.
type RootSet struct {
	Fields map[*types.Var]bool   // struct fields selected anywhere in the dependency chain
	Objs   map[types.Object]bool // parameters, globals and un-expandable locals
	Funcs  map[*types.Func]bool  // callees
	Exprs  []ast.Expr            // every expression visited (for shape queries)
}

// HasFieldTag reports whether some field in the set has this JSON tag within owner struct st.
func (rs *RootSet) HasFieldNamed(name string) bool {
	for f := range rs.Fields {
		if f.Name() == name {
			return true
		}
	}
	return false
}

// Roots computes the transitive dependency roots of e: local variables are expanded through all
// their assignments in the function (including the range expressions that control an assignment
// made inside a loop, when control is true).
func (f *FuncFacts) Roots(e ast.Expr, control bool) *RootSet {
	rs := &RootSet{Fields: map[*types.Var]bool{}, Objs: map[types.Object]bool{}, Funcs: map[*types.Func]bool{}}
	seen := map[types.Object]bool{}
	var visit func(e ast.Node)
	visit = func(e ast.Node) {
		if e == nil {
			return
		}
		ast.Inspect(e, func(n ast.Node) bool {
			switch x := n.(type) {
			case *ast.FuncLit:
				return false
			case ast.Expr:
				rs.Exprs = append(rs.Exprs, x)
			}
			switch x := n.(type) {
			case *ast.SelectorExpr:
				if fv := FieldSel(f.Info, x); fv != nil {
					rs.Fields[fv] = true
				}
			case *ast.CallExpr:
				if c := CalleeOf(f.Info, x); c != nil {
					rs.Funcs[c] = true
				}
			case *ast.Ident:
				o := f.Info.ObjectOf(x)
				v, isVar := o.(*types.Var)
				if !isVar || v.IsField() {
					return true
				}
				if seen[o] {
					return true
				}
				seen[o] = true
				as := f.asg[o]
				if len(as) == 0 {
					rs.Objs[o] = true // parameter, receiver, global, captured
					return true
				}
				// also a parameter that is reassigned keeps itself as a root
				if isParam(f.FD, f.Info, o) {
					rs.Objs[o] = true
				}
				for _, a := range as {
					if a.Rhs != nil {
						visit(a.Rhs)
					}
					if a.RangeOf != nil {
						visit(a.RangeOf)
					}
					if a.Call != nil {
						visit(a.Call)
					}
					if a.TypeAssert != nil {
						visit(a.TypeAssert.X)
					}
					if a.MapIndex != nil {
						visit(a.MapIndex)
					}
					if control {
						for _, r := range a.Ranges {
							visit(r)
						}
					}
				}
			}
			return true
		})
	}
	visit(e)
	return rs
}

func isParam(fd *ast.FuncDecl, info *types.Info, o types.Object) bool {
	if fd.Type.Params != nil {
		for _, fl := range fd.Type.Params.List {
			for _, n := range fl.Names {
				if info.Defs[n] == o {
					return true
				}
			}
		}
	}
	if fd.Recv != nil {
		for _, fl := range fd.Recv.List {
			for _, n := range fl.Names {
				if info.Defs[n] == o {
					return true
				}
			}
		}
	}
	return false
}

// ParamObj returns the object of the i-th parameter (flattened), or nil.
func ParamObj(info *types.Info, fd *ast.FuncDecl, name string) types.Object {
	if fd.Type.Params == nil {
		return nil
	}
	for _, fl := range fd.Type.Params.List {
		for _, n := range fl.Names {
			if n.Name == name {
				return info.Defs[n]
			}
		}
	}
	return nil
}

// ---- nil-ness of returned errors ----------------------------------------------------------

// NilClass classifies an error-typed expression.
type NilClass int

const (
	NonNil   NilClass = iota // provably non-nil
	MaybeNil                 // may be nil
	IsNilLit                 // the literal nil
)

// NilAnalysis memoises "never returns nil" function summaries.
type NilAnalysis struct {
	nowe    map[string]bool
	P       *Prog
	summary map[*types.Func]*nilSummary
	stack   []*types.Func // functions whose summary is being computed, innermost last
}

type nilSummary struct {
	done bool
	// assumed: while the summary was computed, a direct self-call was taken to return non-nil;
	// pess: that assumption failed, self-calls count as possibly nil
	assumed, pess bool
	neverNil      []bool // per result index
	// result i is nil only if parameter paramNil[i] is nil (-1: n/a)
	paramNil []int
}

// NewNilAnalysis creates the analysis.
func NewNilAnalysis(p *Prog) *NilAnalysis {
	return &NilAnalysis{P: p, summary: map[*types.Func]*nilSummary{}, nowe: map[string]bool{}}
}

var externNeverNil = map[string]bool{
	"fmt.Errorf": true, "errors.New": true, "errors.Join": false,
	"context.WithValue": true, "context.Background": true, "context.TODO": true, "context.WithCancel": true,
	// (*url.URL).ResolveReference allocates its result (documented: "always returns a new URL instance")
	"net/url.ResolveReference": true,
}

// resultNeverNil: does result idx of fn never evaluate to nil? paramIdx >= 0: nil only if that param is nil.
func (na *NilAnalysis) resultNeverNil(fn *types.Func, idx int) (never bool, paramIdx int) {
	if fn == nil {
		return false, -1
	}
	fn = fn.Origin()
	if !InRepo(fn.Pkg()) {
		if fn.Pkg() != nil && externNeverNil[fn.Pkg().Path()+"."+fn.Name()] {
			return true, -1
		}
		return false, -1
	}
	s := na.summary[fn]
	if s != nil && !s.done && !s.pess && len(na.stack) > 0 && na.stack[len(na.stack)-1] == fn {
		// a direct self-call met while fn's own returns are being classified: if every other return
		// is non-nil, so is the recursive one whenever it returns (checked after the pass)
		s.assumed = true
		return true, -1
	}
	for pass := 0; s == nil || (pass == 1 && s.pess && !s.done); pass++ {
		sig := fn.Type().(*types.Signature)
		pess := s != nil && s.pess
		s = &nilSummary{neverNil: make([]bool, sig.Results().Len()), paramNil: make([]int, sig.Results().Len()), pess: pess}
		for i := range s.paramNil {
			s.paramNil[i] = -1
		}
		na.summary[fn] = s // provisional (mutual recursion => pessimistic false)
		na.stack = append(na.stack, fn)
		fd := na.P.declByObj[fn]
		if fd != nil && fd.Body != nil {
			info := na.P.InfoFor(fn.Pkg())
			ff := NewFuncFacts(na.P, info, fd)
			for i := 0; i < sig.Results().Len(); i++ {
				all := true
				pidx := -1
				okParam := true
				n := 0
				forEachReturn(fd.Body, func(ret *ast.ReturnStmt) {
					n++
					var e ast.Expr
					if len(ret.Results) == sig.Results().Len() {
						e = ret.Results[i]
					} else if len(ret.Results) == 0 && sig.Results().At(i).Name() != "" {
						// bare return of a named result
						e = nil
					} else {
						all = false
						okParam = false
						return
					}
					var c NilClass
					if e == nil {
						c = na.classifyObjAt(ff, sig.Results().At(i), ret, 0)
					} else {
						c = na.Classify(ff, e, ret)
					}
					if c == NonNil {
						return
					}
					all = false
					// param passthrough?
					if e != nil {
						if id, ok := ast.Unparen(e).(*ast.Ident); ok {
							if o := info.ObjectOf(id); o != nil && isParam(fd, info, o) && len(ff.asg[o]) == 0 {
								k := paramIndex(fd, info, o)
								if pidx == -1 || pidx == k {
									pidx = k
									return
								}
							}
						}
						if call, ok := ast.Unparen(e).(*ast.CallExpr); ok {
							if callee := CalleeOf(info, call); callee != nil {
								if nv, pk := na.resultNeverNil(callee, 0); !nv && pk >= 0 && pk < len(call.Args) {
									if id, ok := ast.Unparen(call.Args[pk]).(*ast.Ident); ok {
										if o := info.ObjectOf(id); o != nil && isParam(fd, info, o) && len(ff.asg[o]) == 0 {
											k := paramIndex(fd, info, o)
											if pidx == -1 || pidx == k {
												pidx = k
												return
											}
										}
									}
								}
							}
						}
					}
					okParam = false
				})
				if n == 0 {
					all = false
				}
				s.neverNil[i] = all
				if !all && okParam && pidx >= 0 {
					s.paramNil[i] = pidx
				}
			}
		}
		na.stack = na.stack[:len(na.stack)-1]
		if s.assumed && !s.pess {
			ok := true
			for _, v := range s.neverNil {
				if !v {
					ok = false
				}
			}
			if !ok {
				// the optimistic reading of the self-calls did not hold: once more, pessimistically
				s.pess = true
				continue
			}
		}
		s.done = true
	}
	if idx >= len(s.neverNil) {
		return false, -1
	}
	return s.neverNil[idx], s.paramNil[idx]
}

func paramIndex(fd *ast.FuncDecl, info *types.Info, o types.Object) int {
	k := 0
	for _, fl := range fd.Type.Params.List {
		for _, n := range fl.Names {
			if info.Defs[n] == o {
				return k
			}
			k++
		}
		if len(fl.Names) == 0 {
			k++
		}
	}
	return -1
}

func forEachReturn(body ast.Node, fn func(*ast.ReturnStmt)) {
	ast.Inspect(body, func(n ast.Node) bool {
		switch x := n.(type) {
		case *ast.FuncLit:
			return false
		case *ast.ReturnStmt:
			fn(x)
		}
		return true
	})
}

// Classify decides whether expression e, evaluated at node `at` of ff's function, is provably non-nil.
func (na *NilAnalysis) Classify(ff *FuncFacts, e ast.Expr, at ast.Node) NilClass {
	return na.classify(ff, e, at, 0)
}

func (na *NilAnalysis) classify(ff *FuncFacts, e ast.Expr, at ast.Node, depth int) NilClass {
	if depth > 6 {
		return MaybeNil
	}
	info := ff.Info
	e = ast.Unparen(e)
	if IsNil(info, e) {
		return IsNilLit
	}
	switch x := e.(type) {
	case *ast.UnaryExpr:
		if x.Op == token.AND {
			return NonNil
		}
	case *ast.CompositeLit:
		// non-pointer composite converted to an interface is non-nil; a nil slice literal `T{}` is
		// non-nil as a slice header only when it has elements, but as an error interface any
		// concrete value is non-nil
		return NonNil
	case *ast.CallExpr:
		// conversion T(x)
		if tv, ok := info.Types[x.Fun]; ok && tv.IsType() && len(x.Args) == 1 {
			return na.classify(ff, x.Args[0], at, depth+1)
		}
		if IsBuiltin(info, x, "new") || IsBuiltin(info, x, "make") {
			return NonNil
		}
		callee := CalleeOf(info, x)
		if callee != nil {
			never, pidx := na.resultNeverNil(callee, 0)
			if never {
				return NonNil
			}
			if pidx >= 0 && pidx < len(x.Args) {
				return na.classify(ff, x.Args[pidx], at, depth+1)
			}
		}
		return MaybeNil
	case *ast.Ident:
		o := info.ObjectOf(x)
		if o == nil {
			return MaybeNil
		}
		return na.classifyObjAt(ff, o, at, depth)
	case *ast.TypeAssertExpr:
		// pool.Get().(*T) on a pool that only ever holds non-nil *T
		if c, ok := ast.Unparen(x.X).(*ast.CallExpr); ok && x.Type != nil {
			if el := na.P.PoolElem(info, c); el != nil && types.Identical(el, info.TypeOf(x.Type)) {
				return NonNil
			}
		}
	case *ast.IndexExpr:
		// element of a slice field that is only ever grown with non-nil elements (r.routes[i])
		if sel, ok := ast.Unparen(x.X).(*ast.SelectorExpr); ok {
			if f := FieldSel(info, sel); f != nil && na.fieldSliceNonNil(f) {
				return NonNil
			}
		}
	case *ast.SelectorExpr:
		// qualified identifier of another package's variable (routers.ErrPathNotFound)
		if v, ok := info.Uses[x.Sel].(*types.Var); ok && !v.IsField() && v.Pkg() != nil && v.Parent() == v.Pkg().Scope() {
			if na.globalNonNil(v) {
				return NonNil
			}
		}
	}
	return MaybeNil
}

// classifyObjAt: nil-ness of variable o at node `at`.
func (na *NilAnalysis) classifyObjAt(ff *FuncFacts, o types.Object, at ast.Node, depth int) NilClass {
	info := ff.Info
	v, ok := o.(*types.Var)
	if !ok {
		return MaybeNil
	}
	// package-level variable: non-nil initialiser and never stored elsewhere
	if v.Parent() == v.Pkg().Scope() {
		if na.globalNonNil(v) {
			return NonNil
		}
		return MaybeNil
	}
	// 1. straight-line reaching assignment: the latest statement preceding `at` in one of the
	// enclosing statement lists that assigns o (not nested deeper)
	path := PathTo(ff.Body, at)
	for i := len(path) - 2; i >= 0; i-- {
		var list []ast.Stmt
		switch b := path[i].(type) {
		case *ast.BlockStmt:
			list = b.List
		case *ast.CaseClause:
			list = b.Body
		case *ast.FuncLit:
			i = -1
			continue
		default:
			continue
		}
		child := path[i+1]
		for j := len(list) - 1; j >= 0; j-- {
			s := list[j]
			if s.End() > child.Pos() {
				continue
			}
			// does s assign o (anywhere inside)?
			if !assignsIdent(info, s, o) {
				continue
			}
			if as, ok := s.(*ast.AssignStmt); ok {
				for k, l := range as.Lhs {
					if id, ok := l.(*ast.Ident); ok && info.ObjectOf(id) == o && len(as.Rhs) == len(as.Lhs) && (as.Tok == token.ASSIGN || as.Tok == token.DEFINE) {
						return na.classify(ff, as.Rhs[k], s, depth+1)
					}
				}
			}
			if ds, ok := s.(*ast.DeclStmt); ok {
				_ = ds
			}
			// `if o == nil { o = <non-nil> }`: afterwards o is non-nil
			if ifs, ok := s.(*ast.IfStmt); ok && ifs.Else == nil && ifs.Init == nil && len(ifs.Body.List) >= 1 {
				if be, ok := ast.Unparen(ifs.Cond).(*ast.BinaryExpr); ok && be.Op == token.EQL && IsNil(info, be.Y) {
					if id, ok := ast.Unparen(be.X).(*ast.Ident); ok && info.ObjectOf(id) == o {
						for _, bs := range ifs.Body.List {
							if as, ok := bs.(*ast.AssignStmt); ok && len(as.Lhs) == 1 && len(as.Rhs) == 1 {
								if lid, ok := as.Lhs[0].(*ast.Ident); ok && info.ObjectOf(lid) == o && na.classify(ff, as.Rhs[0], as, depth+1) == NonNil {
									return NonNil
								}
							}
						}
					}
				}
			}
			// assigned in a nested/compound way: fall back to guards only
			goto guards
		}
		// an if-init of the enclosing if
		if ifs, ok := path[i].(*ast.IfStmt); ok {
			_ = ifs
		}
	}
guards:
	for _, a := range Atoms(GuardsAt(info, ff.Body, at)) {
		if be, ok := ast.Unparen(a.Expr).(*ast.BinaryExpr); ok {
			// x != nil (pos) / x == nil (neg)
			if (be.Op == token.NEQ && a.Pos) || (be.Op == token.EQL && !a.Pos) {
				if id, ok := ast.Unparen(be.X).(*ast.Ident); ok && info.ObjectOf(id) == o && IsNil(info, be.Y) {
					return NonNil
				}
			}
			// len(x) > 0 / len(x) != 0 (pos)
			if a.Pos && (be.Op == token.GTR || be.Op == token.NEQ) {
				if c, ok := ast.Unparen(be.X).(*ast.CallExpr); ok && IsBuiltin(info, c, "len") && len(c.Args) == 1 {
					if id, ok := ast.Unparen(c.Args[0]).(*ast.Ident); ok && info.ObjectOf(id) == o {
						if z, ok := ConstInt(info, be.Y); ok && z == 0 {
							return NonNil
						}
					}
				}
			}
		}
		// `ok` of a comma-ok type assertion that defined o
		if id, ok := ast.Unparen(a.Expr).(*ast.Ident); ok && a.Pos {
			okObj := info.ObjectOf(id)
			for _, as := range ff.asg[o] {
				if as.TypeAssert != nil && as.Idx == 0 {
					if st, ok := as.Stmt.(*ast.AssignStmt); ok && len(st.Lhs) == 2 {
						if id2, ok := st.Lhs[1].(*ast.Ident); ok && info.ObjectOf(id2) == okObj && len(ff.asg[o]) == 1 {
							return NonNil
						}
					}
				}
			}
		}
	}
	// 2b. `v, err := f(...)` and err == nil holds here: for a library f returning (T, error) the
	// standard convention makes T usable (non-nil) when err is nil; for a repo f the returns are
	// inspected (NilOnlyWithError)
	if as := ff.asg[o]; len(as) == 1 && as[0].Call != nil && as[0].Idx == 0 {
		if callee := CalleeOf(info, as[0].Call); callee != nil {
			sig := callee.Type().(*types.Signature)
			if n := sig.Results().Len(); n >= 2 && types.Identical(sig.Results().At(n-1).Type(), types.Universe.Lookup("error").Type()) {
				if st, ok := as[0].Stmt.(*ast.AssignStmt); ok && len(st.Lhs) == n {
					if eid, ok := st.Lhs[n-1].(*ast.Ident); ok && na.errNilAt(ff, info.ObjectOf(eid), at) {
						if !InRepo(callee.Pkg()) || na.NilOnlyWithError(callee, 0, n-1) {
							return NonNil
						}
					}
				}
			}
		}
	}
	// 3. every assignment in the function is non-nil and there is at least one, and the variable
	// is not declared without a value
	as := ff.asg[o]
	if len(as) > 0 && !isParam(ff.FD, info, o) && !isNamedResult(ff.FD, info, o) {
		all := true
		for _, a := range as {
			if a.Rhs == nil {
				all = false
				break
			}
			if id, ok := ast.Unparen(a.Rhs).(*ast.Ident); ok && info.ObjectOf(id) == o {
				continue
			}
			if na.classify(ff, a.Rhs, a.Stmt, depth+1) != NonNil {
				all = false
				break
			}
		}
		if all {
			return NonNil
		}
	}
	return MaybeNil
}

// assignsIdent: does statement s (anywhere inside, closures included) assign the variable o itself
// (not a field or element of it), or take its address?
func assignsIdent(info *types.Info, s ast.Node, o types.Object) bool {
	found := false
	is := func(e ast.Expr) bool {
		id, ok := ast.Unparen(e).(*ast.Ident)
		return ok && info.ObjectOf(id) == o
	}
	ast.Inspect(s, func(n ast.Node) bool {
		switch x := n.(type) {
		case *ast.AssignStmt:
			for _, l := range x.Lhs {
				if is(l) {
					found = true
				}
			}
		case *ast.IncDecStmt:
			if is(x.X) {
				found = true
			}
		case *ast.RangeStmt:
			if (x.Key != nil && is(x.Key)) || (x.Value != nil && is(x.Value)) {
				found = true
			}
		case *ast.UnaryExpr:
			if x.Op == token.AND && is(x.X) {
				found = true
			}
		case *ast.ValueSpec:
			for _, nm := range x.Names {
				if info.Defs[nm] == o {
					found = true
				}
			}
		}
		return !found
	})
	return found
}

// errNilAt: the guards at `at` establish errObj == nil.
func (na *NilAnalysis) errNilAt(ff *FuncFacts, errObj types.Object, at ast.Node) bool {
	if errObj == nil {
		return false
	}
	for _, a := range Atoms(GuardsAt(ff.Info, ff.Body, at)) {
		be, ok := ast.Unparen(a.Expr).(*ast.BinaryExpr)
		if !ok || !IsNil(ff.Info, be.Y) {
			continue
		}
		if (be.Op == token.NEQ && !a.Pos) || (be.Op == token.EQL && a.Pos) {
			if id, ok := ast.Unparen(be.X).(*ast.Ident); ok && ff.Info.ObjectOf(id) == errObj {
				return true
			}
		}
	}
	return false
}

// NilOnlyWithError: in every return of fn, result j is provably non-nil or result errIdx (an error)
// is provably non-nil.
func (na *NilAnalysis) NilOnlyWithError(fn *types.Func, j, errIdx int) bool {
	fn = fn.Origin()
	if !InRepo(fn.Pkg()) {
		return false
	}
	key := fmt.Sprintf("%p/%d/%d", fn, j, errIdx)
	if na.nowe == nil {
		na.nowe = map[string]bool{}
	}
	if v, ok := na.nowe[key]; ok {
		return v
	}
	na.nowe[key] = false
	fd := na.P.declByObj[fn]
	if fd == nil || fd.Body == nil {
		return false
	}
	ff := NewFuncFacts(na.P, na.P.InfoFor(fn.Pkg()), fd)
	n := 0
	good := true
	forEachReturn(fd.Body, func(x *ast.ReturnStmt) {
		n++
		if len(x.Results) <= j || len(x.Results) <= errIdx {
			good = false
			return
		}
		if na.Classify(ff, x.Results[j], x) == NonNil {
			return
		}
		if na.Classify(ff, x.Results[errIdx], x) == NonNil {
			return
		}
		if os.Getenv("KINLINT_DEBUG") == "NOWE" {
			fmt.Fprintf(os.Stderr, "NOWE %s: return at %s undecided\n", fn.FullName(), na.P.Fset.Position(x.Pos()))
		}
		good = false
	})
	res := good && n > 0
	na.nowe[key] = res
	return res
}

func isNamedResult(fd *ast.FuncDecl, info *types.Info, o types.Object) bool {
	if fd.Type.Results == nil {
		return false
	}
	for _, fl := range fd.Type.Results.List {
		for _, n := range fl.Names {
			if info.Defs[n] == o {
				return true
			}
		}
	}
	return false
}

var globalNonNilCache = map[*types.Var]int{}

func (na *NilAnalysis) globalNonNil(v *types.Var) bool {
	if c, ok := globalNonNilCache[v]; ok {
		return c == 1
	}
	globalNonNilCache[v] = 0
	pk := na.P.Pkgs[v.Pkg().Path()]
	if pk == nil {
		return false
	}
	info := pk.TypesInfo
	inited := false
	stored := false
	for _, file := range pk.Syntax {
		ast.Inspect(file, func(n ast.Node) bool {
			switch x := n.(type) {
			case *ast.ValueSpec:
				for i, nm := range x.Names {
					if info.Defs[nm] == v && i < len(x.Values) {
						if call, ok := ast.Unparen(x.Values[i]).(*ast.CallExpr); ok {
							if callee := CalleeOf(info, call); callee != nil {
								if never, _ := na.resultNeverNil(callee, 0); never {
									inited = true
								}
							}
						}
						if u, ok := ast.Unparen(x.Values[i]).(*ast.UnaryExpr); ok && u.Op == token.AND {
							inited = true
						}
					}
				}
			case *ast.AssignStmt:
				for _, l := range x.Lhs {
					if id, ok := l.(*ast.Ident); ok && info.ObjectOf(id) == v {
						stored = true
					}
				}
			case *ast.UnaryExpr:
				if x.Op == token.AND {
					if id, ok := x.X.(*ast.Ident); ok && info.ObjectOf(id) == v {
						stored = true
					}
				}
			}
			return true
		})
	}
	if inited && !stored {
		globalNonNilCache[v] = 1
		return true
	}
	return false
}

// fieldSliceNonNil: every assignment to the slice field f in its package is `x.f = append(x.f, e...)`
// with elements that are provably non-nil (address-of, composite literal, never-nil call).
func (na *NilAnalysis) fieldSliceNonNil(f *types.Var) bool {
	if f.Pkg() == nil || !InRepo(f.Pkg()) {
		return false
	}
	if _, ok := f.Type().Underlying().(*types.Slice); !ok {
		return false
	}
	key := "fs:" + f.Pkg().Path() + "." + f.Name() + fmt.Sprint(f.Pos())
	if v, ok := na.nowe[key]; ok {
		return v
	}
	na.nowe[key] = false
	pk := na.P.Pkgs[f.Pkg().Path()]
	if pk == nil {
		return false
	}
	info := pk.TypesInfo
	ok := true
	n := 0
	for _, file := range pk.Syntax {
		for _, d := range file.Decls {
			fd, isF := d.(*ast.FuncDecl)
			if !isF || fd.Body == nil {
				continue
			}
			var ff *FuncFacts
			ast.Inspect(fd.Body, func(nd ast.Node) bool {
				switch x := nd.(type) {
				case *ast.AssignStmt:
					for i, l := range x.Lhs {
						sel, isSel := ast.Unparen(l).(*ast.SelectorExpr)
						if !isSel || FieldSel(info, sel) != f {
							continue
						}
						n++
						if i >= len(x.Rhs) {
							ok = false
							continue
						}
						c, isCall := ast.Unparen(x.Rhs[i]).(*ast.CallExpr)
						if !isCall || !IsBuiltin(info, c, "append") || len(c.Args) < 2 || c.Ellipsis.IsValid() {
							ok = false
							continue
						}
						if ff == nil {
							ff = NewFuncFacts(na.P, info, fd)
						}
						for _, e := range c.Args[1:] {
							if na.Classify(ff, e, x) != NonNil {
								ok = false
							}
						}
					}
				case *ast.KeyValueExpr:
					// composite literal initialising the field
					if id, isID := x.Key.(*ast.Ident); isID && info.ObjectOf(id) == types.Object(f) {
						ok = false
					}
				case *ast.UnaryExpr:
					if x.Op == token.AND {
						if sel, isSel := ast.Unparen(x.X).(*ast.SelectorExpr); isSel && FieldSel(info, sel) == f {
							ok = false
						}
					}
				}
				return true
			})
		}
	}
	na.nowe[key] = ok && n > 0
	return ok && n > 0
}

// PoolElem: call is `P.Get()` on a package-level sync.Pool P whose New function returns the address
// of a composite literal (or new(T)) and into which nothing else than values of that pointer type
// is Put (never a nil literal): returns the pointer type every Get yields, nil otherwise.
func (p *Prog) PoolElem(info *types.Info, call *ast.CallExpr) types.Type {
	sel, ok := call.Fun.(*ast.SelectorExpr)
	if !ok || sel.Sel.Name != "Get" || len(call.Args) != 0 {
		return nil
	}
	callee := CalleeOf(info, call)
	if callee == nil || callee.Pkg() == nil || callee.Pkg().Path() != "sync" {
		return nil
	}
	id, ok := ast.Unparen(sel.X).(*ast.Ident)
	if !ok {
		return nil
	}
	gv, ok := info.ObjectOf(id).(*types.Var)
	if !ok {
		return nil
	}
	init := p.GlobalInit(gv)
	if init == nil {
		return nil
	}
	pk := p.Pkgs[gv.Pkg().Path()]
	if pk == nil {
		return nil
	}
	pinfo := pk.TypesInfo
	cl, ok := ast.Unparen(init).(*ast.CompositeLit)
	if !ok {
		return nil
	}
	var elem types.Type
	for _, e := range cl.Elts {
		kv, ok := e.(*ast.KeyValueExpr)
		if !ok || ExprStr(kv.Key) != "New" {
			continue
		}
		fl, ok := ast.Unparen(kv.Value).(*ast.FuncLit)
		if !ok {
			return nil
		}
		good := true
		forEachReturn(fl.Body, func(ret *ast.ReturnStmt) {
			if len(ret.Results) != 1 {
				good = false
				return
			}
			r0 := ast.Unparen(ret.Results[0])
			if u, ok := r0.(*ast.UnaryExpr); ok && u.Op == token.AND {
				if _, isLit := ast.Unparen(u.X).(*ast.CompositeLit); isLit {
					elem = pinfo.TypeOf(r0)
					return
				}
			}
			if c, ok := r0.(*ast.CallExpr); ok && IsBuiltin(pinfo, c, "new") {
				elem = pinfo.TypeOf(r0)
				return
			}
			good = false
		})
		if !good {
			return nil
		}
	}
	if elem == nil {
		return nil
	}
	// every Put in the package
	okPut := true
	for _, file := range pk.Syntax {
		ast.Inspect(file, func(n ast.Node) bool {
			c, ok := n.(*ast.CallExpr)
			if !ok || len(c.Args) != 1 {
				return true
			}
			s2, ok := c.Fun.(*ast.SelectorExpr)
			if !ok || s2.Sel.Name != "Put" {
				return true
			}
			if pid, ok := ast.Unparen(s2.X).(*ast.Ident); !ok || pinfo.ObjectOf(pid) != types.Object(gv) {
				return true
			}
			if IsNil(pinfo, c.Args[0]) || !types.Identical(pinfo.TypeOf(c.Args[0]), elem) {
				okPut = false
			}
			return true
		})
	}
	if !okPut {
		return nil
	}
	return elem
}

// GlobalInit returns the initialiser of a package-level variable that is never assigned again (nor
// has its address taken) anywhere in its package; nil otherwise.
func (p *Prog) GlobalInit(v *types.Var) ast.Expr { return p.globalInit(v, false) }

// GlobalInitAddr is GlobalInit for variables whose address is taken (and handed out) but which are
// never assigned by name.
func (p *Prog) GlobalInitAddr(v *types.Var) ast.Expr { return p.globalInit(v, true) }

func (p *Prog) globalInit(v *types.Var, addrOK bool) ast.Expr {
	if v == nil || v.Pkg() == nil || v.Parent() != v.Pkg().Scope() {
		return nil
	}
	pk := p.Pkgs[v.Pkg().Path()]
	if pk == nil {
		return nil
	}
	info := pk.TypesInfo
	var init ast.Expr
	stored := false
	for _, file := range pk.Syntax {
		ast.Inspect(file, func(n ast.Node) bool {
			switch x := n.(type) {
			case *ast.ValueSpec:
				for i, nm := range x.Names {
					if info.Defs[nm] == v && i < len(x.Values) {
						init = x.Values[i]
					}
				}
			case *ast.AssignStmt:
				for _, l := range x.Lhs {
					if id, ok := l.(*ast.Ident); ok && info.ObjectOf(id) == v {
						stored = true
					}
				}
			case *ast.UnaryExpr:
				if x.Op == token.AND && !addrOK {
					if id, ok := x.X.(*ast.Ident); ok && info.ObjectOf(id) == v {
						stored = true
					}
				}
			}
			return true
		})
	}
	if stored {
		return nil
	}
	return init
}

// ReachingAssign returns the right-hand side of the latest straight-line assignment to o that
// precedes node `at` in one of its enclosing statement lists (nil when the reaching definition is
// not a single straight-line assignment).
func (ff *FuncFacts) ReachingAssign(o types.Object, at ast.Node) ast.Expr {
	info := ff.Info
	path := PathTo(ff.Body, at)
	for i := len(path) - 2; i >= 0; i-- {
		var list []ast.Stmt
		switch b := path[i].(type) {
		case *ast.BlockStmt:
			list = b.List
		case *ast.CaseClause:
			list = b.Body
		case *ast.FuncLit:
			return nil
		case *ast.IfStmt:
			if as, ok := b.Init.(*ast.AssignStmt); ok && path[i+1] != ast.Node(b.Init) {
				for k, l := range as.Lhs {
					if id, ok := l.(*ast.Ident); ok && info.ObjectOf(id) == o && len(as.Rhs) == len(as.Lhs) {
						return as.Rhs[k]
					}
				}
			}
			continue
		default:
			continue
		}
		child := path[i+1]
		for j := len(list) - 1; j >= 0; j-- {
			s := list[j]
			if s.End() > child.Pos() {
				continue
			}
			if !assignedObjs(info, []ast.Node{s})[o] {
				continue
			}
			if as, ok := s.(*ast.AssignStmt); ok && len(as.Rhs) == len(as.Lhs) && (as.Tok == token.ASSIGN || as.Tok == token.DEFINE) {
				for k, l := range as.Lhs {
					if id, ok := l.(*ast.Ident); ok && info.ObjectOf(id) == o {
						return as.Rhs[k]
					}
				}
			}
			if ds, ok := s.(*ast.DeclStmt); ok {
				if gd, ok := ds.Decl.(*ast.GenDecl); ok {
					for _, sp := range gd.Specs {
						if vs, ok := sp.(*ast.ValueSpec); ok {
							for k, nm := range vs.Names {
								if info.Defs[nm] == o && k < len(vs.Values) {
									return vs.Values[k]
								}
							}
						}
					}
				}
			}
			return nil
		}
	}
	return nil
}

// ResultNeverNil reports whether result idx of f is never nil (second result: nil only if that
// parameter is nil, -1 when not applicable).
func (na *NilAnalysis) ResultNeverNil(f *types.Func, idx int) (bool, int) {
	return na.resultNeverNil(f, idx)
}
