// Package core holds the machinery shared by every rule: loading /repo's current working tree,
// SSA and call-graph construction, symbol resolution, obligations, evidence and known findings.
package core

import (
	"fmt"
	"go/ast"
	"go/token"
	"go/types"
	"os"
	"path/filepath"
	"sort"
	"strings"

	"golang.org/x/tools/go/callgraph"
	"golang.org/x/tools/go/callgraph/cha"
	"golang.org/x/tools/go/callgraph/vta"
	"golang.org/x/tools/go/packages"
	"golang.org/x/tools/go/ssa"
	"golang.org/x/tools/go/ssa/ssautil"
)

// ModPath is the module path of the analysed repository.
const ModPath = "github.com/getkin/kin-openapi"

// Prog is the loaded, type-checked program.
type Prog struct {
	Dir   string
	Fset  *token.FileSet
	Pkgs  map[string]*packages.Package // by import path, repo packages only
	All   []*packages.Package          // initial packages
	SSA   *ssa.Program
	spkgs map[string]*ssa.Package
	cg    *callgraph.Graph

	declByObj map[types.Object]*ast.FuncDecl
	fileOf    map[*ast.File]*packages.Package
	NFuncs    int
}

// Undecided is raised (panic value) when an anchor a rule needs cannot be resolved.
type Undecided struct{ Msg string }

func (u Undecided) Error() string { return u.Msg }

// Fail aborts the current rule as undecided.
func Fail(format string, args ...any) { panic(Undecided{fmt.Sprintf(format, args...)}) }

// Load loads ./... of dir with full syntax and types. GOARCH may be overridden via goarch.
func Load(dir, goarch string) (*Prog, error) {
	env := append(os.Environ(), "GOFLAGS=-mod=mod", "GOPROXY=off", "GOSUMDB=off", "GOTOOLCHAIN=local", "GOWORK=off")
	if goarch != "" {
		env = append(env, "GOARCH="+goarch)
	}
	cfg := &packages.Config{
		Mode:  packages.LoadAllSyntax,
		Dir:   dir,
		Tests: false,
		Env:   env,
	}
	pkgs, err := packages.Load(cfg, "./...")
	if err != nil {
		return nil, err
	}
	p := &Prog{Dir: dir, Pkgs: map[string]*packages.Package{}, All: pkgs, declByObj: map[types.Object]*ast.FuncDecl{}, fileOf: map[*ast.File]*packages.Package{}}
	var errs []string
	packages.Visit(pkgs, nil, func(pk *packages.Package) {
		for _, e := range pk.Errors {
			errs = append(errs, e.Error())
		}
	})
	if len(errs) > 0 {
		sort.Strings(errs)
		return nil, fmt.Errorf("type/load errors: %s", strings.Join(errs, "; "))
	}
	for _, pk := range pkgs {
		if pk.Fset != nil {
			p.Fset = pk.Fset
		}
		if strings.HasPrefix(pk.PkgPath, ModPath) {
			p.Pkgs[pk.PkgPath] = pk
		}
	}
	if len(p.Pkgs) < 11 {
		return nil, fmt.Errorf("only %d repo packages loaded, need >= 11", len(p.Pkgs))
	}
	for _, pk := range p.Pkgs {
		for _, f := range pk.Syntax {
			p.fileOf[f] = pk
			for _, d := range f.Decls {
				if fd, ok := d.(*ast.FuncDecl); ok {
					if o := pk.TypesInfo.Defs[fd.Name]; o != nil {
						p.declByObj[o] = fd
						p.NFuncs++
					}
				}
			}
		}
	}
	return p, nil
}

// BuildSSA builds SSA for the whole program (idempotent).
func (p *Prog) BuildSSA() {
	if p.SSA != nil {
		return
	}
	prog, _ := ssautil.AllPackages(p.All, ssa.InstantiateGenerics)
	prog.Build()
	p.SSA = prog
	p.spkgs = map[string]*ssa.Package{}
	for _, sp := range prog.AllPackages() {
		if sp.Pkg != nil {
			p.spkgs[sp.Pkg.Path()] = sp
		}
	}
}

// CallGraph returns the VTA call graph seeded with CHA (built on first use).
func (p *Prog) CallGraph() *callgraph.Graph {
	if p.cg != nil {
		return p.cg
	}
	p.BuildSSA()
	p.cg = vta.CallGraph(ssautil.AllFunctions(p.SSA), cha.CallGraph(p.SSA))
	return p.cg
}

// Pkg returns the repo package with the given path relative to the module ("openapi3").
func (p *Prog) Pkg(rel string) *packages.Package {
	path := ModPath
	if rel != "" && rel != "." {
		path += "/" + rel
	}
	pk := p.Pkgs[path]
	if pk == nil {
		Fail("package %s not loaded", path)
	}
	return pk
}

// PkgOpt is Pkg without the failure: nil when the package is not loaded.
func (p *Prog) PkgOpt(rel string) *packages.Package {
	path := ModPath
	if rel != "" && rel != "." {
		path += "/" + rel
	}
	return p.Pkgs[path]
}

// SSAPkg returns the SSA package for a repo-relative path.
func (p *Prog) SSAPkg(rel string) *ssa.Package {
	p.BuildSSA()
	pk := p.Pkg(rel)
	sp := p.spkgs[pk.PkgPath]
	if sp == nil {
		Fail("no SSA package for %s", rel)
	}
	return sp
}

// Pos renders a position relative to the repo directory.
func (p *Prog) Pos(pos token.Pos) string {
	if !pos.IsValid() {
		return "-"
	}
	ps := p.Fset.Position(pos)
	f := ps.Filename
	if r, err := filepath.Rel(p.Dir, f); err == nil && !strings.HasPrefix(r, "..") {
		f = r
	}
	return fmt.Sprintf("%s:%d", f, ps.Line)
}

// InRepo reports whether a types.Package belongs to the analysed module.
func InRepo(pkg *types.Package) bool {
	return pkg != nil && strings.HasPrefix(pkg.Path(), ModPath)
}

// RelPkg returns the package path relative to the module.
func RelPkg(pkg *types.Package) string {
	if pkg == nil {
		return ""
	}
	return strings.TrimPrefix(strings.TrimPrefix(pkg.Path(), ModPath), "/")
}

// NamedType looks up a named type in a repo package; fails if absent.
func (p *Prog) NamedType(rel, name string) *types.Named {
	o := p.Pkg(rel).Types.Scope().Lookup(name)
	if o == nil {
		Fail("type %s.%s not found", rel, name)
	}
	tn, ok := o.(*types.TypeName)
	if !ok {
		Fail("%s.%s is not a type", rel, name)
	}
	n, ok := tn.Type().(*types.Named)
	if !ok {
		Fail("%s.%s is not a named type", rel, name)
	}
	return n
}

// FuncObj resolves "Name" or "Recv.Name" in a repo package to its *types.Func; fails if absent.
func (p *Prog) FuncObj(rel, qname string) *types.Func {
	f := p.FuncObjOpt(rel, qname)
	if f == nil {
		Fail("function %s.%s not found", rel, qname)
	}
	return f
}

// FuncObjOpt is FuncObj without the failure.
func (p *Prog) FuncObjOpt(rel, qname string) *types.Func {
	pk := p.Pkg(rel)
	if i := strings.Index(qname, "."); i >= 0 {
		recv, name := qname[:i], qname[i+1:]
		o := pk.Types.Scope().Lookup(recv)
		if o == nil {
			return nil
		}
		n, ok := o.Type().(*types.Named)
		if !ok {
			return nil
		}
		for i := 0; i < n.NumMethods(); i++ {
			if n.Method(i).Name() == name {
				return n.Method(i)
			}
		}
		return nil
	}
	o := pk.Types.Scope().Lookup(qname)
	f, _ := o.(*types.Func)
	return f
}

// Decl returns the syntax of a repo function; fails if absent.
func (p *Prog) Decl(f *types.Func) *ast.FuncDecl {
	d := p.declByObj[f]
	if d == nil {
		d = p.declByObj[f.Origin()]
	}
	if d == nil {
		Fail("no declaration for %s", f.FullName())
	}
	return d
}

// DeclOf resolves and returns the declaration of rel.qname.
func (p *Prog) DeclOf(rel, qname string) *ast.FuncDecl { return p.Decl(p.FuncObj(rel, qname)) }

// SSAFunc returns the SSA function of a *types.Func.
func (p *Prog) SSAFunc(f *types.Func) *ssa.Function {
	p.BuildSSA()
	fn := p.SSA.FuncValue(f)
	if fn == nil {
		Fail("no SSA function for %s", f.FullName())
	}
	return fn
}

// SSAFuncOf resolves rel.qname to its SSA function.
func (p *Prog) SSAFuncOf(rel, qname string) *ssa.Function { return p.SSAFunc(p.FuncObj(rel, qname)) }

// Info returns the types.Info of the package containing a syntax node position.
func (p *Prog) InfoFor(pkg *types.Package) *types.Info {
	pk := p.Pkgs[pkg.Path()]
	if pk == nil {
		Fail("no info for package %s", pkg.Path())
	}
	return pk.TypesInfo
}

// AllDecls iterates over every function declaration of a repo package (sorted by position).
func (p *Prog) AllDecls(rel string) []*ast.FuncDecl {
	pk := p.Pkg(rel)
	var out []*ast.FuncDecl
	for _, f := range pk.Syntax {
		for _, d := range f.Decls {
			if fd, ok := d.(*ast.FuncDecl); ok && fd.Body != nil {
				out = append(out, fd)
			}
		}
	}
	sort.Slice(out, func(i, j int) bool { return out[i].Pos() < out[j].Pos() })
	return out
}

// FuncName renders Recv.Name for a declaration.
func FuncName(fd *ast.FuncDecl) string {
	if fd.Recv != nil && len(fd.Recv.List) > 0 {
		t := fd.Recv.List[0].Type
		for {
			switch x := t.(type) {
			case *ast.StarExpr:
				t = x.X
				continue
			case *ast.IndexExpr:
				t = x.X
				continue
			case *ast.ParenExpr:
				t = x.X
				continue
			}
			break
		}
		if id, ok := t.(*ast.Ident); ok {
			return id.Name + "." + fd.Name.Name
		}
	}
	return fd.Name.Name
}

// RepoSSAFuncs returns every SSA function (incl. anonymous) whose package is in the repo.
func (p *Prog) RepoSSAFuncs() []*ssa.Function {
	p.BuildSSA()
	var out []*ssa.Function
	for fn := range ssautil.AllFunctions(p.SSA) {
		if fn.Blocks == nil {
			continue
		}
		if SSAFuncInRepo(fn) {
			out = append(out, fn)
		}
	}
	sort.Slice(out, func(i, j int) bool {
		if out[i].String() != out[j].String() {
			return out[i].String() < out[j].String()
		}
		return out[i].Pos() < out[j].Pos()
	})
	return out
}

// SSAFuncInRepo reports whether fn (or its outermost parent) is declared in the repo.
func SSAFuncInRepo(fn *ssa.Function) bool {
	for fn.Parent() != nil {
		fn = fn.Parent()
	}
	if fn.Origin() != nil {
		fn = fn.Origin()
	}
	if fn.Package() == nil {
		// synthetic wrappers, thunks and bound-method closures of repo methods
		if o := fn.Object(); o != nil {
			return InRepo(o.Pkg())
		}
		return false
	}
	return InRepo(fn.Package().Pkg)
}

// Reachable returns repo functions reachable in the call graph from the entries (closures of a
// reachable function are included: an anonymous function is reachable when its parent is).
func (p *Prog) Reachable(entries []*ssa.Function) map[*ssa.Function]bool {
	return p.ReachableExcept(entries, nil)
}

// ReachableExcept is Reachable without entering the functions for which stop returns true.
func (p *Prog) ReachableExcept(entries []*ssa.Function, stop func(*ssa.Function) bool) map[*ssa.Function]bool {
	cg := p.CallGraph()
	seen := map[*ssa.Function]bool{}
	var work []*ssa.Function
	push := func(f *ssa.Function) {
		if f == nil || seen[f] {
			return
		}
		if stop != nil && stop(f) {
			return
		}
		seen[f] = true
		work = append(work, f)
	}
	for _, e := range entries {
		push(e)
	}
	for len(work) > 0 {
		f := work[len(work)-1]
		work = work[:len(work)-1]
		for _, an := range f.AnonFuncs {
			push(an)
		}
		if !SSAFuncInRepo(f) {
			// do not traverse through library code except to find callbacks into the repo:
			// VTA edges from stdlib into repo functions (sort.Slice less funcs, http handlers)
			// are followed one level.
		}
		n := cg.Nodes[f]
		if n == nil {
			continue
		}
		// the HTTP stack is not traversed: its only way back into the repository is through
		// http.Handler values, which VTA resolves to every handler in the program (the client side used
		// by the loader would "reach" the validation middleware)
		if !SSAFuncInRepo(f) && f.Pkg != nil {
			pp := f.Pkg.Pkg.Path()
			if pp == "net/http" || strings.HasPrefix(pp, "net/http/") || pp == "net" || strings.HasPrefix(pp, "crypto/") || strings.HasPrefix(pp, "golang.org/x/net/") || pp == "github.com/gorilla/mux" {
				continue
			}
		}
		for _, e := range n.Out {
			push(e.Callee.Func)
		}
	}
	out := map[*ssa.Function]bool{}
	for f := range seen {
		if SSAFuncInRepo(f) && f.Blocks != nil {
			out[f] = true
		}
	}
	return out
}
