package core

import (
	"go/ast"
	"go/constant"
	"go/token"
	"go/types"
	"strings"
)

// Guard is a boolean expression known to hold (Pos) or known not to hold (!Pos) at a program point,
// inferred from the AST nesting: enclosing if/switch branches and preceding sibling statements of
// the form `if c { ...; return|continue|break|panic }`.
type Guard struct {
	Cond ast.Expr
	Pos  bool
	// for tagged switches: Tag == one of Vals (Pos) / Tag != all of Vals (!Pos)
	Tag  ast.Expr
	Vals []ast.Expr
	At   token.Pos
}

// PathTo returns the chain of nodes from root down to target (inclusive), or nil.
func PathTo(root ast.Node, target ast.Node) []ast.Node {
	var path []ast.Node
	var found []ast.Node
	ast.Inspect(root, func(n ast.Node) bool {
		if found != nil {
			return false
		}
		if n == nil {
			path = path[:len(path)-1]
			return true
		}
		path = append(path, n)
		if n == target {
			found = append([]ast.Node(nil), path...)
			return false
		}
		// prune: only descend if target within n's range
		if target.Pos() < n.Pos() || target.End() > n.End() {
			path = path[:len(path)-1]
			return false
		}
		return true
	})
	return found
}

// Terminates reports whether executing the statement list never falls through to the statement
// after the list's parent (it ends with return, panic, continue, break, goto, or an if/else whose
// branches both terminate).
func Terminates(info *types.Info, list []ast.Stmt) bool {
	if len(list) == 0 {
		return false
	}
	return stmtTerminates(info, list[len(list)-1])
}

func stmtTerminates(info *types.Info, s ast.Stmt) bool {
	switch x := s.(type) {
	case *ast.ReturnStmt:
		return true
	case *ast.BranchStmt:
		return x.Tok == token.CONTINUE || x.Tok == token.BREAK || x.Tok == token.GOTO
	case *ast.ExprStmt:
		if c, ok := x.X.(*ast.CallExpr); ok {
			if id, ok := c.Fun.(*ast.Ident); ok && id.Name == "panic" {
				if _, isB := info.Uses[id].(*types.Builtin); isB {
					return true
				}
			}
			// os.Exit, log.Fatal*
			if sel, ok := c.Fun.(*ast.SelectorExpr); ok {
				if f, ok := info.Uses[sel.Sel].(*types.Func); ok && f.Pkg() != nil {
					full := f.Pkg().Path() + "." + f.Name()
					if full == "os.Exit" || strings.HasPrefix(full, "log.Fatal") || strings.HasPrefix(full, "log.Panic") {
						return true
					}
				}
			}
		}
	case *ast.BlockStmt:
		return Terminates(info, x.List)
	case *ast.IfStmt:
		if x.Else == nil {
			return false
		}
		return Terminates(info, x.Body.List) && stmtTerminates(info, x.Else)
	case *ast.LabeledStmt:
		return stmtTerminates(info, x.Stmt)
	}
	return false
}

// assignedObjs collects objects that are (re)assigned, inc/dec'ed, ranged into or have their
// address taken inside the nodes.
func assignedObjs(info *types.Info, nodes []ast.Node) map[types.Object]bool {
	out := map[types.Object]bool{}
	mark := func(e ast.Expr) {
		for {
			switch x := e.(type) {
			case *ast.ParenExpr:
				e = x.X
				continue
			case *ast.StarExpr:
				e = x.X
				continue
			case *ast.IndexExpr:
				e = x.X
				continue
			case *ast.SelectorExpr:
				// a store to x.f invalidates guards mentioning x.f: record root object and field
				if o := info.Uses[x.Sel]; o != nil {
					out[o] = true
				}
				e = x.X
				continue
			}
			break
		}
		if id, ok := e.(*ast.Ident); ok {
			if o := info.ObjectOf(id); o != nil {
				out[o] = true
			}
		}
	}
	for _, n := range nodes {
		ast.Inspect(n, func(n ast.Node) bool {
			switch x := n.(type) {
			case *ast.AssignStmt:
				for _, l := range x.Lhs {
					// a plain define of a new variable cannot invalidate older facts about
					// other objects, but shadowing is handled by object identity anyway
					mark(l)
				}
			case *ast.IncDecStmt:
				mark(x.X)
			case *ast.RangeStmt:
				if x.Key != nil {
					mark(x.Key)
				}
				if x.Value != nil {
					mark(x.Value)
				}
			case *ast.UnaryExpr:
				if x.Op == token.AND {
					if _, isLit := x.X.(*ast.CompositeLit); !isLit {
						// &v: v may be written through the pointer; only count identifiers
						if id, ok := x.X.(*ast.Ident); ok {
							if o := info.ObjectOf(id); o != nil {
								out[o] = true
							}
						}
					}
				}
			}
			return true
		})
	}
	return out
}

// mentions reports whether expr mentions any object in objs. For selector chains both the root
// identifier object and the field objects count.
func mentions(info *types.Info, e ast.Node, objs map[types.Object]bool) bool {
	if e == nil || len(objs) == 0 {
		return false
	}
	hit := false
	ast.Inspect(e, func(n ast.Node) bool {
		if id, ok := n.(*ast.Ident); ok {
			if o := info.ObjectOf(id); o != nil && objs[o] {
				// a field object only counts when it was stored through (recorded in objs)
				hit = true
			}
		}
		return !hit
	})
	return hit
}

// GuardsAt computes the guards holding at target inside body.
func GuardsAt(info *types.Info, body ast.Node, target ast.Node) []Guard {
	path := PathTo(body, target)
	if path == nil {
		return nil
	}
	var gs []Guard
	// add splits positive conjunctions / negative disjunctions so that invalidating one conjunct
	// (by an assignment to a variable it mentions) keeps the others
	var add func(cond ast.Expr, pos bool, at token.Pos)
	add = func(cond ast.Expr, pos bool, at token.Pos) {
		switch x := cond.(type) {
		case *ast.ParenExpr:
			add(x.X, pos, at)
			return
		case *ast.UnaryExpr:
			if x.Op == token.NOT {
				add(x.X, !pos, at)
				return
			}
		case *ast.BinaryExpr:
			if (x.Op == token.LAND && pos) || (x.Op == token.LOR && !pos) {
				add(x.X, pos, at)
				add(x.Y, pos, at)
				return
			}
		}
		gs = append(gs, Guard{Cond: cond, Pos: pos, At: at})
	}
	dropAssigned := func(nodes []ast.Node) {
		if len(gs) == 0 {
			return
		}
		objs := assignedObjs(info, nodes)
		if len(objs) == 0 {
			return
		}
		keep := gs[:0]
		for _, g := range gs {
			bad := mentions(info, g.Cond, objs) || mentions(info, g.Tag, objs)
			if !bad {
				keep = append(keep, g)
			}
		}
		gs = keep
	}
	handleList := func(list []ast.Stmt, child ast.Node) {
		for _, s := range list {
			if s == child || (child.Pos() >= s.Pos() && child.End() <= s.End()) {
				break
			}
			// effects of s first invalidate older guards; the body of an `if` that never falls
			// through cannot affect the code after it
			if ifs0, ok := s.(*ast.IfStmt); ok && Terminates(info, ifs0.Body.List) {
				var parts []ast.Node
				if ifs0.Init != nil {
					parts = append(parts, ifs0.Init)
				}
				parts = append(parts, ifs0.Cond)
				if ifs0.Else != nil {
					parts = append(parts, ifs0.Else)
				}
				dropAssigned(parts)
			} else {
				dropAssigned([]ast.Node{s})
			}
			if ifs, ok := s.(*ast.IfStmt); ok {
				// `if E == "" { E = "<non-empty const>" }` (also len(E) == 0): afterwards E != ""
				if ifs.Else == nil && ifs.Init == nil && len(ifs.Body.List) == 1 {
					if be, ok := ast.Unparen(ifs.Cond).(*ast.BinaryExpr); ok && be.Op == token.EQL {
						if as, ok := ifs.Body.List[0].(*ast.AssignStmt); ok && len(as.Lhs) == 1 && len(as.Rhs) == 1 && as.Tok == token.ASSIGN {
							if v, ok := ConstStr(info, as.Rhs[0]); ok && v != "" {
								if c, ok := ConstStr(info, be.Y); ok && c == "" && AccessPath(info, be.X) != "" && AccessPath(info, be.X) == AccessPath(info, as.Lhs[0]) {
									gs = append(gs, Guard{Cond: &ast.BinaryExpr{X: be.X, Op: token.NEQ, Y: be.Y}, Pos: true, At: ifs.Pos()})
								}
							}
						}
					}
				}
				// variables assigned in the if statement itself were dropped above; guards
				// derived from it are about the state after it
				bodyT := Terminates(info, ifs.Body.List)
				if ifs.Else == nil {
					if bodyT {
						// the init statement's variables are scoped to the if: skip if cond mentions them
						if !condUsesInitVars(info, ifs) {
							add(ifs.Cond, false, ifs.Pos())
						}
					}
				} else {
					elseT := stmtTerminates(info, ifs.Else)
					if bodyT && !elseT {
						if _, isIf := ifs.Else.(*ast.IfStmt); !isIf && !condUsesInitVars(info, ifs) {
							add(ifs.Cond, false, ifs.Pos())
						}
					} else if elseT && !bodyT && !condUsesInitVars(info, ifs) {
						add(ifs.Cond, true, ifs.Pos())
					}
				}
			}
		}
	}
	for i := 0; i+1 < len(path); i++ {
		n, child := path[i], path[i+1]
		switch x := n.(type) {
		case *ast.BlockStmt:
			handleList(x.List, child)
		case *ast.IfStmt:
			if child == ast.Node(x.Body) {
				if x.Init != nil {
					dropAssigned([]ast.Node{x.Init})
				}
				add(x.Cond, true, x.Pos())
			} else if x.Else != nil && child == ast.Node(x.Else) {
				if x.Init != nil {
					dropAssigned([]ast.Node{x.Init})
				}
				add(x.Cond, false, x.Pos())
			} else if child == ast.Node(x.Cond) {
				if x.Init != nil {
					dropAssigned([]ast.Node{x.Init})
				}
			}
		case *ast.ForStmt:
			if child == ast.Node(x.Body) {
				dropAssigned([]ast.Node{x.Body})
				if x.Post != nil {
					dropAssigned([]ast.Node{x.Post})
				}
				if x.Cond != nil {
					add(x.Cond, true, x.Pos())
				}
			}
		case *ast.RangeStmt:
			if child == ast.Node(x.Body) {
				dropAssigned([]ast.Node{x.Body})
				var kv []ast.Node
				if x.Key != nil {
					kv = append(kv, &ast.AssignStmt{Lhs: []ast.Expr{x.Key}, Tok: token.ASSIGN})
				}
				if x.Value != nil {
					kv = append(kv, &ast.AssignStmt{Lhs: []ast.Expr{x.Value}, Tok: token.ASSIGN})
				}
				dropAssigned(kv)
			}
		case *ast.SwitchStmt:
			// child is the body block; the clause is path[i+2]
			if x.Init != nil && child == ast.Node(x.Body) {
				dropAssigned([]ast.Node{x.Init})
			}
			if child == ast.Node(x.Body) && i+2 < len(path) {
				if cc, ok := path[i+2].(*ast.CaseClause); ok {
					if x.Tag != nil {
						if cc.List != nil {
							gs = append(gs, Guard{Tag: x.Tag, Vals: cc.List, Pos: true, At: cc.Pos()})
						} else {
							var all []ast.Expr
							for _, s := range x.Body.List {
								all = append(all, s.(*ast.CaseClause).List...)
							}
							gs = append(gs, Guard{Tag: x.Tag, Vals: all, Pos: false, At: cc.Pos()})
						}
					} else {
						// tagless: earlier cases false (when they cannot fall through), own disjunction true
						for _, s := range x.Body.List {
							c2 := s.(*ast.CaseClause)
							if c2 == cc {
								break
							}
							for _, e := range c2.List {
								add(e, false, c2.Pos())
							}
						}
						if len(cc.List) == 1 {
							add(cc.List[0], true, cc.Pos())
						} else if cc.List == nil {
							// default: all cases false
							for _, s := range x.Body.List {
								c2 := s.(*ast.CaseClause)
								for _, e := range c2.List {
									add(e, false, c2.Pos())
								}
							}
						}
					}
				}
			}
		case *ast.BinaryExpr:
			// short-circuit: inside the right operand the left one is known
			if child == ast.Node(x.Y) {
				if x.Op == token.LAND {
					add(x.X, true, x.Pos())
				} else if x.Op == token.LOR {
					add(x.X, false, x.Pos())
				}
			}
		case *ast.CaseClause:
			handleList(x.Body, child)
		case *ast.CommClause:
			handleList(x.Body, child)
		case *ast.FuncLit:
			// facts about captured variables at creation time do not carry to call time
			// unless the variables are never reassigned; keep only guards over objects that are
			// assigned nowhere in the enclosing body after creation – conservatively drop all.
			gs = nil
		}
	}
	return gs
}

func condUsesInitVars(info *types.Info, ifs *ast.IfStmt) bool {
	if ifs.Init == nil {
		return false
	}
	objs := map[types.Object]bool{}
	if as, ok := ifs.Init.(*ast.AssignStmt); ok && as.Tok == token.DEFINE {
		for _, l := range as.Lhs {
			if id, ok := l.(*ast.Ident); ok {
				if o := info.Defs[id]; o != nil {
					objs[o] = true
				}
			}
		}
	}
	return mentions(info, ifs.Cond, objs)
}

// Atom is an atomic boolean fact: Expr holds (Pos) or does not hold (!Pos).
type Atom struct {
	Expr ast.Expr
	Pos  bool
}

// Atoms flattens guards into atomic facts: positive conjunctions and negative disjunctions are
// split; negations are pushed inwards. Tagged-switch guards become `Tag == Val` atoms when there is
// a single value (positive) or one `Tag != Val` per value (negative).
func Atoms(gs []Guard) []Atom {
	var out []Atom
	var add func(e ast.Expr, pos bool)
	add = func(e ast.Expr, pos bool) {
		switch x := e.(type) {
		case *ast.ParenExpr:
			add(x.X, pos)
			return
		case *ast.UnaryExpr:
			if x.Op == token.NOT {
				add(x.X, !pos)
				return
			}
		case *ast.BinaryExpr:
			if (x.Op == token.LAND && pos) || (x.Op == token.LOR && !pos) {
				add(x.X, pos)
				add(x.Y, pos)
				return
			}
		}
		out = append(out, Atom{e, pos})
	}
	for _, g := range gs {
		if g.Cond != nil {
			add(g.Cond, g.Pos)
		} else if g.Tag != nil {
			if g.Pos && len(g.Vals) == 1 {
				out = append(out, Atom{&ast.BinaryExpr{X: g.Tag, Op: token.EQL, Y: g.Vals[0]}, true})
			} else if !g.Pos {
				for _, v := range g.Vals {
					out = append(out, Atom{&ast.BinaryExpr{X: g.Tag, Op: token.EQL, Y: v}, false})
				}
			} else {
				// positive multi-value: keep as a disjunction
				var d ast.Expr
				for _, v := range g.Vals {
					eq := &ast.BinaryExpr{X: g.Tag, Op: token.EQL, Y: v}
					if d == nil {
						d = eq
					} else {
						d = &ast.BinaryExpr{X: d, Op: token.LOR, Y: eq}
					}
				}
				if d != nil {
					out = append(out, Atom{d, true})
				}
			}
		}
	}
	return out
}

// ExprStr renders an expression compactly (types.ExprString elides nothing we depend on here).
func ExprStr(e ast.Expr) string {
	if e == nil {
		return ""
	}
	return types.ExprString(e)
}

// AccessPath renders a selector chain rooted at an identifier as "root.f.g" using object identity
// for the root (name@pos) so that shadowed variables differ; returns "" if e is not such a chain.
// Parens are stripped; `*p` is treated as p.
func AccessPath(info *types.Info, e ast.Expr) string {
	var parts []string
	for {
		switch x := e.(type) {
		case *ast.ParenExpr:
			e = x.X
			continue
		case *ast.StarExpr:
			e = x.X
			continue
		case *ast.SelectorExpr:
			// package-qualified identifier?
			if id, ok := x.X.(*ast.Ident); ok {
				if _, isPkg := info.Uses[id].(*types.PkgName); isPkg {
					o := info.Uses[x.Sel]
					if o == nil {
						return ""
					}
					parts = append(parts, o.Pkg().Name()+"."+o.Name())
					goto done
				}
			}
			parts = append(parts, x.Sel.Name)
			e = x.X
			continue
		case *ast.Ident:
			o := info.ObjectOf(x)
			if o == nil {
				return ""
			}
			if _, isVar := o.(*types.Var); !isVar {
				return ""
			}
			parts = append(parts, x.Name+"@"+itoa(int(o.Pos())))
			goto done
		}
		return ""
	}
done:
	// reverse
	for i, j := 0, len(parts)-1; i < j; i, j = i+1, j-1 {
		parts[i], parts[j] = parts[j], parts[i]
	}
	return strings.Join(parts, ".")
}

func itoa(i int) string {
	if i == 0 {
		return "0"
	}
	var b []byte
	neg := i < 0
	if neg {
		i = -i
	}
	for i > 0 {
		b = append([]byte{byte('0' + i%10)}, b...)
		i /= 10
	}
	if neg {
		b = append([]byte{'-'}, b...)
	}
	return string(b)
}

// IsNil reports whether e is the predeclared nil.
func IsNil(info *types.Info, e ast.Expr) bool {
	if p, ok := e.(*ast.ParenExpr); ok {
		return IsNil(info, p.X)
	}
	id, ok := e.(*ast.Ident)
	if !ok {
		return false
	}
	_, isNil := info.Uses[id].(*types.Nil)
	return isNil
}

// ConstStr returns the constant string value of e, if any.
func ConstStr(info *types.Info, e ast.Expr) (string, bool) {
	tv, ok := info.Types[e]
	if !ok || tv.Value == nil || tv.Value.Kind() != constant.String {
		return "", false
	}
	return constant.StringVal(tv.Value), true
}

// ConstInt returns the constant integer value of e, if any.
func ConstInt(info *types.Info, e ast.Expr) (int64, bool) {
	tv, ok := info.Types[e]
	if !ok || tv.Value == nil {
		return 0, false
	}
	v := constant.ToInt(tv.Value)
	if v.Kind() != constant.Int {
		return 0, false
	}
	i, exact := constant.Int64Val(v)
	return i, exact
}

// FieldSel resolves a selector expression to the struct field it selects (nil if not a field).
func FieldSel(info *types.Info, e ast.Expr) *types.Var {
	for {
		if p, ok := e.(*ast.ParenExpr); ok {
			e = p.X
			continue
		}
		break
	}
	sel, ok := e.(*ast.SelectorExpr)
	if !ok {
		return nil
	}
	if s := info.Selections[sel]; s != nil && s.Kind() == types.FieldVal {
		v, _ := s.Obj().(*types.Var)
		return v
	}
	return nil
}

// CalleeOf resolves the static callee of a call (function or method), or nil.
func CalleeOf(info *types.Info, call *ast.CallExpr) *types.Func {
	fun := call.Fun
	for {
		switch x := fun.(type) {
		case *ast.ParenExpr:
			fun = x.X
			continue
		case *ast.IndexExpr:
			fun = x.X
			continue
		case *ast.IndexListExpr:
			fun = x.X
			continue
		}
		break
	}
	switch x := fun.(type) {
	case *ast.Ident:
		f, _ := info.Uses[x].(*types.Func)
		return f
	case *ast.SelectorExpr:
		f, _ := info.Uses[x.Sel].(*types.Func)
		return f
	}
	return nil
}

// IsBuiltin reports whether call is a call of the named builtin.
func IsBuiltin(info *types.Info, call *ast.CallExpr, name string) bool {
	id, ok := call.Fun.(*ast.Ident)
	if !ok || id.Name != name {
		return false
	}
	_, isB := info.Uses[id].(*types.Builtin)
	return isB
}

// FuncFullName renders pkgrel.Recv.Name for a *types.Func.
func FuncFullName(f *types.Func) string {
	if f == nil {
		return "?"
	}
	sig := f.Type().(*types.Signature)
	name := f.Name()
	if r := sig.Recv(); r != nil {
		if n := NamedOf(r.Type()); n != nil {
			name = n.Obj().Name() + "." + name
		}
	}
	if f.Pkg() != nil {
		if InRepo(f.Pkg()) {
			return RelPkg(f.Pkg()) + "." + name
		}
		return f.Pkg().Path() + "." + name
	}
	return name
}

// RootIdent returns the identifier an access path (x, x.f, x[i], *x, x.f[i].g) starts from.
func RootIdent(e ast.Expr) *ast.Ident {
	for {
		switch x := ast.Unparen(e).(type) {
		case *ast.Ident:
			return x
		case *ast.SelectorExpr:
			e = x.X
		case *ast.IndexExpr:
			e = x.X
		case *ast.StarExpr:
			e = x.X
		case *ast.SliceExpr:
			e = x.X
		default:
			return nil
		}
	}
}
