package core

import (
	"go/types"
	"reflect"
	"sort"
	"strings"
)

// JSONTag returns the JSON key of a struct field tag ("" when absent or "-"), and whether the tag
// has omitempty.
func JSONTag(tag string) (string, bool) { return tagKey(tag, "json") }

// YAMLTag is JSONTag for the yaml key.
func YAMLTag(tag string) (string, bool) { return tagKey(tag, "yaml") }

func tagKey(tag, key string) (string, bool) {
	v, ok := reflect.StructTag(tag).Lookup(key)
	if !ok {
		return "", false
	}
	parts := strings.Split(v, ",")
	name := parts[0]
	if name == "-" {
		name = ""
	}
	omit := false
	for _, p := range parts[1:] {
		if p == "omitempty" {
			omit = true
		}
	}
	return name, omit
}

// StructOf returns the underlying struct of a (pointer to) named type, or nil.
func StructOf(t types.Type) *types.Struct {
	if p, ok := t.Underlying().(*types.Pointer); ok {
		t = p.Elem()
	}
	s, _ := t.Underlying().(*types.Struct)
	return s
}

// NamedOf strips pointers and returns the named type, or nil.
func NamedOf(t types.Type) *types.Named {
	for {
		switch x := t.(type) {
		case *types.Pointer:
			t = x.Elem()
			continue
		case *types.Alias:
			t = types.Unalias(x)
			continue
		}
		break
	}
	n, _ := t.(*types.Named)
	return n
}

// FieldByJSON finds the field of struct type whose json tag is key.
func FieldByJSON(st *types.Struct, key string) *types.Var {
	for i := 0; i < st.NumFields(); i++ {
		if k, _ := JSONTag(st.Tag(i)); k == key {
			return st.Field(i)
		}
	}
	return nil
}

// TagOfField returns the json key of field v in struct st.
func TagOfField(st *types.Struct, v *types.Var) string {
	for i := 0; i < st.NumFields(); i++ {
		if st.Field(i) == v {
			k, _ := JSONTag(st.Tag(i))
			return k
		}
	}
	return ""
}

// ModelTypes returns the named struct types of a repo package reachable from root through fields,
// slices, maps and pointers (all in the same package).
func (p *Prog) ModelTypes(rel, root string) []*types.Named {
	pk := p.Pkg(rel)
	seen := map[*types.Named]bool{}
	var order []*types.Named
	var visit func(t types.Type)
	visit = func(t types.Type) {
		switch x := t.(type) {
		case *types.Alias:
			visit(types.Unalias(x))
		case *types.Pointer:
			visit(x.Elem())
		case *types.Slice:
			visit(x.Elem())
		case *types.Array:
			visit(x.Elem())
		case *types.Map:
			visit(x.Key())
			visit(x.Elem())
		case *types.Named:
			if x.Obj().Pkg() != pk.Types {
				return
			}
			if seen[x] {
				return
			}
			seen[x] = true
			if st, ok := x.Underlying().(*types.Struct); ok {
				order = append(order, x)
				for i := 0; i < st.NumFields(); i++ {
					visit(st.Field(i).Type())
				}
			} else {
				visit(x.Underlying())
			}
		}
	}
	visit(p.NamedType(rel, root))
	sort.Slice(order, func(i, j int) bool { return order[i].Obj().Name() < order[j].Obj().Name() })
	return order
}

// IsRefWrapper reports whether n is a struct with fields `Ref string` and `Value *X`; returns X.
func IsRefWrapper(n *types.Named) (*types.Named, bool) {
	st, ok := n.Underlying().(*types.Struct)
	if !ok {
		return nil, false
	}
	var hasRef bool
	var val *types.Named
	for i := 0; i < st.NumFields(); i++ {
		f := st.Field(i)
		if f.Name() == "Ref" {
			if b, ok := f.Type().Underlying().(*types.Basic); ok && b.Kind() == types.String {
				hasRef = true
			}
		}
		if f.Name() == "Value" {
			if pt, ok := f.Type().(*types.Pointer); ok {
				val, _ = pt.Elem().(*types.Named)
			}
		}
	}
	return val, hasRef && val != nil
}

// RefPos is a (owner struct, field) pair whose type reaches a ref wrapper (or *PathItem).
type RefPos struct {
	Owner   *types.Named
	Field   *types.Var
	Tag     string
	Wrapper *types.Named // the wrapper (or PathItem) reached
	Via     string       // "direct", "slice", "map", "maplike"
}

func (r RefPos) String() string { return r.Owner.Obj().Name() + "." + r.Field.Name() }

// RefPositions enumerates, over the model types of a package, every field whose type reaches a
// *W (ref wrapper) or *PathItem through slices, maps and named aliases of those.
func (p *Prog) RefPositions(rel, root string) []RefPos {
	pk := p.Pkg(rel)
	var out []RefPos
	var reach func(t types.Type, via string, depth int) (*types.Named, string)
	reach = func(t types.Type, via string, depth int) (*types.Named, string) {
		if depth > 4 {
			return nil, ""
		}
		switch x := t.(type) {
		case *types.Alias:
			return reach(types.Unalias(x), via, depth)
		case *types.Pointer:
			if n, ok := x.Elem().(*types.Named); ok && n.Obj().Pkg() == pk.Types {
				if _, ok := IsRefWrapper(n); ok {
					return n, via
				}
				if n.Obj().Name() == "PathItem" {
					return n, via
				}
			}
			return nil, ""
		case *types.Slice:
			return reach(x.Elem(), "slice", depth+1)
		case *types.Map:
			return reach(x.Elem(), "map", depth+1)
		case *types.Named:
			if x.Obj().Pkg() != pk.Types {
				return nil, ""
			}
			if _, ok := x.Underlying().(*types.Struct); ok {
				return nil, ""
			}
			return reach(x.Underlying(), via, depth+1)
		}
		return nil, ""
	}
	for _, n := range p.ModelTypes(rel, root) {
		if _, ok := IsRefWrapper(n); ok {
			continue
		}
		st := n.Underlying().(*types.Struct)
		for i := 0; i < st.NumFields(); i++ {
			f := st.Field(i)
			if w, via := reach(f.Type(), "direct", 0); w != nil {
				if f.Name() == "m" {
					via = "maplike"
				}
				tag, _ := JSONTag(st.Tag(i))
				out = append(out, RefPos{Owner: n, Field: f, Tag: tag, Wrapper: w, Via: via})
			}
		}
	}
	return out
}

// HasMethod reports whether *n or n has a method with this name.
func HasMethod(n *types.Named, name string) *types.Func {
	for i := 0; i < n.NumMethods(); i++ {
		if n.Method(i).Name() == name {
			return n.Method(i)
		}
	}
	return nil
}
