package core

import (
	"fmt"
	"go/token"
	"go/types"
	"sort"

	"golang.org/x/tools/go/ssa"
)

// Origin is a leaf of a backward provenance slice.
type Origin struct {
	Kind string // "param", "call", "alloc", "load", "const", "global", "other"
	Fn   *ssa.Function
	Val  ssa.Value
	// for "call": the callee; for "load": the field
	Callee *ssa.Function
	Field  string
	Pos    token.Pos
}

func (o Origin) String() string {
	fn := "?"
	if o.Fn != nil {
		fn = o.Fn.String()
	}
	switch o.Kind {
	case "param":
		return fmt.Sprintf("param %s of %s", o.Val.Name(), fn)
	case "call":
		c := "dynamic"
		if o.Callee != nil {
			c = o.Callee.String()
		}
		return fmt.Sprintf("result of %s in %s", c, fn)
	case "load":
		return fmt.Sprintf("load of %s in %s", o.Field, fn)
	}
	return fmt.Sprintf("%s in %s", o.Kind, fn)
}

// ProvOpts configures Origins.
type ProvOpts struct {
	// StopAt: calls to these repo functions are leaves (not expanded into their returns).
	StopAt func(callee *ssa.Function) bool
	// IsEntry: parameters of these functions are leaves (not expanded to callers).
	IsEntry func(fn *ssa.Function) bool
	// MaxDepth bounds the interprocedural expansion (default 12).
	MaxDepth int
}

type provFrame struct {
	fn   *ssa.Function
	call *ssa.Call
}

type provKey struct {
	v    ssa.Value
	call *ssa.Call
}

type provState struct {
	p      *Prog
	opts   ProvOpts
	seen   map[provKey]bool
	out    []Origin
	frames []provFrame // call sites through which callee returns were entered (context)
}

// Origins computes the backward provenance leaves of v (defined in fn).
func (p *Prog) Origins(v ssa.Value, opts ProvOpts) []Origin {
	if opts.MaxDepth == 0 {
		opts.MaxDepth = 400 // termination comes from the visited set; the bound only guards against bugs
	}
	st := &provState{p: p, opts: opts, seen: map[provKey]bool{}}
	st.walk(v, 0)
	sort.Slice(st.out, func(i, j int) bool { return st.out[i].String() < st.out[j].String() })
	// dedupe
	var out []Origin
	for i, o := range st.out {
		if i > 0 && o.String() == st.out[i-1].String() {
			continue
		}
		out = append(out, o)
	}
	return out
}

func parentOf(v ssa.Value) *ssa.Function {
	switch x := v.(type) {
	case *ssa.Parameter:
		return x.Parent()
	case *ssa.FreeVar:
		return x.Parent()
	case ssa.Instruction:
		return x.Parent()
	}
	return nil
}

func (st *provState) leaf(kind string, v ssa.Value, callee *ssa.Function, field string) {
	st.out = append(st.out, Origin{Kind: kind, Fn: parentOf(v), Val: v, Callee: callee, Field: field, Pos: v.Pos()})
}

func (st *provState) walk(v ssa.Value, depth int) {
	if v == nil {
		return
	}
	var ctx *ssa.Call
	if len(st.frames) > 0 {
		ctx = st.frames[len(st.frames)-1].call
	}
	if st.seen[provKey{v, ctx}] {
		return
	}
	st.seen[provKey{v, ctx}] = true
	if depth > st.opts.MaxDepth {
		st.leaf("other", v, nil, "depth")
		return
	}
	switch x := v.(type) {
	case *ssa.Const:
		st.leaf("const", v, nil, "")
	case *ssa.Global:
		st.leaf("global", v, nil, x.Name())
	case *ssa.Function:
		st.leaf("const", v, nil, "")
	case *ssa.Parameter:
		fn := x.Parent()
		idx := -1
		for i, prm := range fn.Params {
			if prm == x {
				idx = i
			}
		}
		// context: entered this function through a specific call site -> only that call's argument
		for k := len(st.frames) - 1; k >= 0; k-- {
			if st.frames[k].fn == fn {
				c := st.frames[k].call.Common()
				var args []ssa.Value
				if c.IsInvoke() {
					args = append(args, c.Value)
				}
				args = append(args, c.Args...)
				if idx >= 0 && idx < len(args) {
					saved := st.frames
					st.frames = st.frames[:k]
					st.walk(args[idx], depth)
					st.frames = saved
					return
				}
			}
		}
		if st.opts.IsEntry != nil && st.opts.IsEntry(fn) {
			st.leaf("param", v, nil, "")
			return
		}
		node := st.p.CallGraph().Nodes[fn]
		n := 0
		if node != nil {
			for _, e := range node.In {
				if e.Site == nil || !SSAFuncInRepo(e.Caller.Func) {
					continue
				}
				c := e.Site.Common()
				var args []ssa.Value
				if c.IsInvoke() {
					args = append(args, c.Value)
				}
				args = append(args, c.Args...)
				// method value / bound: receiver is part of closure; skip mismatches
				if idx >= 0 && idx < len(args) && len(args) == len(fn.Params) {
					n++
					st.walk(args[idx], depth+1)
				}
			}
		}
		if n == 0 {
			st.leaf("param", v, nil, "")
		}
	case *ssa.FreeVar:
		fn := x.Parent()
		idx := -1
		for i, fv := range fn.FreeVars {
			if fv == x {
				idx = i
			}
		}
		found := false
		if par := fn.Parent(); par != nil {
			for _, b := range par.Blocks {
				for _, in := range b.Instrs {
					if mc, ok := in.(*ssa.MakeClosure); ok && mc.Fn == fn && idx < len(mc.Bindings) {
						found = true
						st.walk(mc.Bindings[idx], depth+1)
					}
				}
			}
		}
		if !found {
			st.leaf("other", v, nil, "freevar")
		}
	case *ssa.Phi:
		for _, e := range x.Edges {
			st.walk(e, depth)
		}
	case *ssa.MakeInterface:
		st.walk(x.X, depth)
	case *ssa.ChangeType:
		st.walk(x.X, depth)
	case *ssa.ChangeInterface:
		st.walk(x.X, depth)
	case *ssa.Convert:
		st.walk(x.X, depth)
	case *ssa.TypeAssert:
		st.walk(x.X, depth)
	case *ssa.Slice:
		st.walk(x.X, depth)
	case *ssa.Extract:
		if call, ok := x.Tuple.(*ssa.Call); ok {
			st.walkCall(call, x.Index, x, depth)
			return
		}
		st.leaf("other", v, nil, "extract")
	case *ssa.Call:
		st.walkCall(x, 0, x, depth)
	case *ssa.Alloc:
		// the address of a local: its content comes from the stores
		st.walkStores(x, v, depth)
	case *ssa.UnOp:
		if x.Op != token.MUL {
			st.leaf("other", v, nil, "unop")
			return
		}
		switch a := x.X.(type) {
		case *ssa.Alloc:
			st.walkStores(a, v, depth)
		case *ssa.FieldAddr:
			k, _, _ := fieldKey(a.X.Type(), a.Field)
			st.leaf("load", v, nil, k)
		case *ssa.Global:
			st.leaf("global", v, nil, a.Name())
		case *ssa.FreeVar:
			// captured variable cell: stores in the parent
			st.walk(a, depth)
		default:
			// *p for a pointer-valued p: the object p designates
			st.walk(a, depth)
		}
	case *ssa.Lookup, *ssa.Index, *ssa.IndexAddr, *ssa.Field, *ssa.FieldAddr:
		st.leaf("load", v, nil, fmt.Sprintf("%T", v))
	case *ssa.MakeClosure, *ssa.MakeMap, *ssa.MakeSlice, *ssa.MakeChan:
		st.leaf("alloc", v, nil, "")
	default:
		st.leaf("other", v, nil, fmt.Sprintf("%T", v))
	}
}

func (st *provState) walkStores(a *ssa.Alloc, v ssa.Value, depth int) {
	n := 0
	var scan func(fn *ssa.Function)
	scan = func(fn *ssa.Function) {
		for _, b := range fn.Blocks {
			for _, in := range b.Instrs {
				if s, ok := in.(*ssa.Store); ok && s.Addr == a {
					n++
					st.walk(s.Val, depth)
				}
			}
		}
	}
	scan(a.Parent())
	// a struct alloc filled field by field (composite literal), or an address passed away
	fieldStores := false
	for _, ref := range *a.Referrers() {
		if _, ok := ref.(*ssa.FieldAddr); ok {
			fieldStores = true
		}
	}
	if n == 0 || fieldStores {
		st.leaf("alloc", a, nil, "")
	}
}

func (st *provState) walkCall(call *ssa.Call, idx int, v ssa.Value, depth int) {
	callee := call.Common().StaticCallee()
	if callee == nil {
		// dynamic: use call graph
		var cs []*ssa.Function
		if n := st.p.CallGraph().Nodes[call.Parent()]; n != nil {
			for _, e := range n.Out {
				if e.Site == ssa.CallInstruction(call) {
					cs = append(cs, e.Callee.Func)
				}
			}
		}
		if len(cs) == 0 {
			st.leaf("call", v, nil, "")
			return
		}
		for _, c := range cs {
			st.expandCallee(call, c, idx, v, depth)
		}
		return
	}
	st.expandCallee(call, callee, idx, v, depth)
}

func (st *provState) expandCallee(call *ssa.Call, callee *ssa.Function, idx int, v ssa.Value, depth int) {
	if callee.Blocks == nil || !SSAFuncInRepo(callee) || (st.opts.StopAt != nil && st.opts.StopAt(callee)) {
		st.out = append(st.out, Origin{Kind: "call", Fn: call.Parent(), Val: v, Callee: callee, Pos: call.Pos()})
		return
	}
	if len(st.frames) > 64 {
		st.leaf("other", v, nil, "context depth")
		return
	}
	st.frames = append(st.frames, provFrame{callee, call})
	for _, b := range callee.Blocks {
		for _, in := range b.Instrs {
			if ret, ok := in.(*ssa.Return); ok && idx < len(ret.Results) {
				st.walk(ret.Results[idx], depth+1)
			}
		}
	}
	st.frames = st.frames[:len(st.frames)-1]
}

// NilEdgeDominates reports whether block blk is dominated by the successor of an `If` testing
// `v != nil` / `v == nil` on which v is nil (the "no error" edge). v is typically a call result.
func NilEdgeDominates(v ssa.Value, blk *ssa.BasicBlock) bool {
	refs := v.Referrers()
	if refs == nil {
		return false
	}
	for _, ref := range *refs {
		bo, ok := ref.(*ssa.BinOp)
		if !ok || (bo.Op != token.NEQ && bo.Op != token.EQL) {
			continue
		}
		other := bo.Y
		if other == v {
			other = bo.X
		}
		c, ok := other.(*ssa.Const)
		if !ok || !c.IsNil() {
			continue
		}
		for _, r2 := range *bo.Referrers() {
			ifi, ok := r2.(*ssa.If)
			if !ok {
				continue
			}
			b := ifi.Block()
			nilSucc := b.Succs[1] // for v != nil, the false edge
			if bo.Op == token.EQL {
				nilSucc = b.Succs[0]
			}
			if nilSucc != b.Succs[0] || nilSucc != b.Succs[1] {
				if nilSucc.Dominates(blk) && len(nilSucc.Preds) == 1 {
					return true
				}
			}
		}
	}
	return false
}

// StoresToField returns every Store instruction in repo functions whose address is a FieldAddr
// of the given struct field.
func (p *Prog) StoresToField(owner *types.Named, field string) []*ssa.Store {
	var out []*ssa.Store
	for _, fn := range p.RepoSSAFuncs() {
		for _, b := range fn.Blocks {
			for _, in := range b.Instrs {
				st, ok := in.(*ssa.Store)
				if !ok {
					continue
				}
				fa, ok := st.Addr.(*ssa.FieldAddr)
				if !ok {
					continue
				}
				n := NamedOf(fa.X.Type())
				if n == nil || n.Origin() != owner {
					continue
				}
				if s, ok := n.Underlying().(*types.Struct); ok && s.Field(fa.Field).Name() == field {
					out = append(out, st)
				}
			}
		}
	}
	return out
}
