package core

import (
	"fmt"
	"go/constant"
	"go/token"
	"go/types"
	"os"
	"sort"
	"strings"

	"golang.org/x/tools/go/callgraph"
	"golang.org/x/tools/go/ssa"
)

// Taint is a forward, interprocedural, context-insensitive, field-based taint analysis over go/ssa.
// A tainted value is one that is, or may contain, text derived from a source. Values of boolean and
// numeric type are never tainted (lengths, comparison results and counters carry no text).
type Taint struct {
	P      *Prog
	Funcs  []*ssa.Function
	val    map[ssa.Value]string // value -> why (first reason)
	fields map[string]string    // "pkg.Type#field" -> why
	globs  map[*ssa.Global]string
	ret    map[*ssa.Function]map[int]string
	tup    map[ssa.Value]map[int]string // per-index taint of call results that are tuples
	alias  map[ssa.Value][]ssa.Value
	// KeysAreSources: when false (default) the key of a range/lookup over a tainted map is not tainted.
	KeysAreSources bool
	// SinkField is called for every store of a tainted value into a struct field.
	Sinks   []TaintHit
	IsSink  func(owner *types.Named, field *types.Var) bool
	changed bool
	edges   map[ssa.CallInstruction][]*callgraph.Edge
	// Stores counts, per sink field key, every store seen (tainted or not).
	SinkStores int
	// BlockArg: do not propagate argument idx (receiver first) at this call site into the callee.
	BlockArg func(site ssa.CallInstruction, callee *ssa.Function, idx int) bool
	// AliasMode: taint means "is (part of) the very same mutable object": strings do not carry,
	// library calls return fresh values (no flow through them).
	AliasMode bool
	// NoContainment: storing a tainted value into a container does not taint the container
	// (taint then means "is, or is an element of, a source object", not "contains one").
	NoContainment bool
	// SeedFields: loads of these fields ("pkg.Type#Field") are sources.
	SeedFields map[string]bool
	// Sanitizer: results of calls to these functions are clean whatever the arguments.
	Sanitizer func(callee *ssa.Function) bool
	// Opaque: dynamic call sites with a tainted argument and no resolvable callee (user callbacks)
	Opaque map[ssa.CallInstruction]bool
}

// TaintHit is a source->sink flow.
type TaintHit struct {
	Fn    *ssa.Function
	Pos   token.Pos
	Field string
	Why   string
}

// NewTaint prepares the analysis over all repo functions.
func NewTaint(p *Prog) *Taint {
	t := &Taint{P: p, val: map[ssa.Value]string{}, fields: map[string]string{}, globs: map[*ssa.Global]string{}, ret: map[*ssa.Function]map[int]string{}, tup: map[ssa.Value]map[int]string{}, alias: map[ssa.Value][]ssa.Value{}, Opaque: map[ssa.CallInstruction]bool{}}
	t.Funcs = p.RepoSSAFuncs()
	cg := p.CallGraph()
	t.edges = map[ssa.CallInstruction][]*callgraph.Edge{}
	for _, fn := range t.Funcs {
		if n := cg.Nodes[fn]; n != nil {
			for _, e := range n.Out {
				if e.Site != nil {
					t.edges[e.Site] = append(t.edges[e.Site], e)
				}
			}
		}
	}
	return t
}

func carries(ty types.Type) bool {
	switch u := ty.Underlying().(type) {
	case *types.Basic:
		return u.Info()&(types.IsString) != 0 || u.Kind() == types.UnsafePointer || u.Kind() == types.UntypedNil || u.Kind() == types.Invalid
	case *types.Tuple:
		for i := 0; i < u.Len(); i++ {
			if carries(u.At(i).Type()) {
				return true
			}
		}
		return false
	}
	return true
}

// Mark taints a value.
func (t *Taint) Mark(v ssa.Value, why string) {
	if v == nil {
		return
	}
	if !carries(v.Type()) {
		return
	}
	if t.AliasMode {
		if b, ok := v.Type().Underlying().(*types.Basic); ok && b.Info()&types.IsString != 0 {
			return
		}
	}
	if _, isConst := v.(*ssa.Const); isConst {
		return
	}
	if _, ok := t.val[v]; ok {
		return
	}
	t.val[v] = why
	t.changed = true
	for _, a := range t.alias[v] {
		t.Mark(a, why)
	}
}

// Tainted reports whether v is tainted.
func (t *Taint) Tainted(v ssa.Value) bool { _, ok := t.val[v]; return ok }

// Why returns the reason chain head for v.
func (t *Taint) Why(v ssa.Value) string { return t.val[v] }

func fieldKey(structT types.Type, idx int) (string, *types.Named, *types.Var) {
	if p, ok := structT.Underlying().(*types.Pointer); ok {
		structT = p.Elem()
	}
	st, ok := structT.Underlying().(*types.Struct)
	if !ok || idx >= st.NumFields() {
		return "", nil, nil
	}
	n, _ := types.Unalias(structT).(*types.Named)
	name := structT.String()
	if n != nil {
		n = n.Origin()
		name = n.Obj().Pkg().Path() + "." + n.Obj().Name()
	}
	return name + "#" + st.Field(idx).Name(), n, st.Field(idx)
}

func (t *Taint) pos(fn *ssa.Function, p token.Pos) string {
	for !p.IsValid() && fn != nil {
		p = fn.Pos()
		break
	}
	return t.P.Pos(p)
}

func (t *Taint) describe(fn *ssa.Function, instr ssa.Instruction, what string, from ssa.Value) string {
	prev := t.val[from]
	s := fmt.Sprintf("%s at %s", what, t.pos(fn, instr.Pos()))
	if prev != "" {
		// keep chains short
		parts := strings.Split(prev, " <- ")
		if len(parts) > 6 && os.Getenv("KINLINT_FULLCHAIN") == "" {
			parts = append(parts[:3], append([]string{"..."}, parts[len(parts)-2:]...)...)
		}
		s += " <- " + strings.Join(parts, " <- ")
	}
	return s
}

// Run iterates to a fixpoint.
func (t *Taint) Run() {
	for iter := 0; iter < 50; iter++ {
		t.changed = false
		for _, fn := range t.Funcs {
			t.flowFunc(fn)
		}
		if !t.changed {
			break
		}
	}
	sort.Slice(t.Sinks, func(i, j int) bool { return t.Sinks[i].Pos < t.Sinks[j].Pos })
}

func baseOfAddr(a ssa.Value) (base ssa.Value, viaField bool, fkey string, owner *types.Named, fv *types.Var) {
	switch x := a.(type) {
	case *ssa.FieldAddr:
		k, n, f := fieldKey(x.X.Type(), x.Field)
		return x.X, true, k, n, f
	case *ssa.IndexAddr:
		return x.X, false, "", nil, nil
	}
	return a, false, "", nil, nil
}

func (t *Taint) markStoreTarget(fn *ssa.Function, instr ssa.Instruction, addr ssa.Value, v ssa.Value, sinkSeen map[ssa.Instruction]bool) {
	why := t.describe(fn, instr, "stored", v)
	switch a := addr.(type) {
	case *ssa.FieldAddr:
		k, n, f := fieldKey(a.X.Type(), a.Field)
		if k == "" {
			return
		}
		if t.IsSink != nil && n != nil && t.IsSink(n, f) {
			if !sinkSeen[instr] {
				sinkSeen[instr] = true
				dup := false
				for _, h := range t.Sinks {
					if h.Pos == instr.Pos() && h.Fn == fn {
						dup = true
					}
				}
				if !dup {
					t.Sinks = append(t.Sinks, TaintHit{Fn: fn, Pos: instr.Pos(), Field: k, Why: why})
					t.changed = true
				}
			}
		}
		if _, ok := t.fields[k]; !ok {
			t.fields[k] = why
			t.changed = true
		}
	case *ssa.IndexAddr:
		// element store: the container (or the array alloc) now contains taint
		if t.NoContainment {
			if _, isAlloc := a.X.(*ssa.Alloc); !isAlloc {
				return
			}
		}
		t.Mark(a.X, why)
		if u, ok := a.X.(*ssa.UnOp); ok && u.Op == token.MUL {
			t.markStoreTarget(fn, instr, u.X, v, sinkSeen)
		}
	case *ssa.Global:
		if _, ok := t.globs[a]; !ok {
			t.globs[a] = why
			t.changed = true
		}
	default:
		t.Mark(addr, why)
	}
}

// fmtVerbs maps the i-th variadic operand of a constant format string to its verb.
func fmtVerbs(format string) []byte {
	var verbs []byte
	for i := 0; i < len(format); i++ {
		if format[i] != '%' {
			continue
		}
		i++
		for i < len(format) && strings.IndexByte("+-# 0123456789.[]*", format[i]) >= 0 {
			if format[i] == '*' {
				verbs = append(verbs, '*')
			}
			i++
		}
		if i < len(format) {
			if format[i] == '%' {
				continue
			}
			verbs = append(verbs, format[i])
		}
	}
	return verbs
}

// variadicElems returns the values stored into the backing array of a variadic slice argument.
func variadicElems(arg ssa.Value) ([]ssa.Value, bool) {
	sl, ok := arg.(*ssa.Slice)
	if !ok {
		return nil, false
	}
	al, ok := sl.X.(*ssa.Alloc)
	if !ok {
		return nil, false
	}
	arr, ok := al.Type().Underlying().(*types.Pointer).Elem().Underlying().(*types.Array)
	if !ok {
		return nil, false
	}
	elems := make([]ssa.Value, arr.Len())
	for _, ref := range *al.Referrers() {
		ia, ok := ref.(*ssa.IndexAddr)
		if !ok {
			continue
		}
		c, ok := ia.Index.(*ssa.Const)
		if !ok {
			return nil, false
		}
		idx, _ := constant.Int64Val(c.Value)
		for _, r2 := range *ia.Referrers() {
			if st, ok := r2.(*ssa.Store); ok && st.Addr == ia && int(idx) < len(elems) {
				elems[idx] = st.Val
			}
		}
	}
	return elems, true
}

func isFmtFormatFunc(f *ssa.Function) (fmtIdx int, ok bool) {
	if f == nil || f.Pkg == nil || f.Pkg.Pkg.Path() != "fmt" {
		return 0, false
	}
	switch f.Name() {
	case "Sprintf", "Errorf":
		return 0, true
	case "Fprintf":
		return 1, true
	}
	return 0, false
}

func (t *Taint) flowFunc(fn *ssa.Function) {
	sinkSeen := map[ssa.Instruction]bool{}
	for _, b := range fn.Blocks {
		for _, instr := range b.Instrs {
			switch x := instr.(type) {
			case *ssa.Phi:
				for _, e := range x.Edges {
					if t.Tainted(e) {
						t.Mark(x, t.val[e])
					}
				}
			case *ssa.ChangeType:
				t.copy(x, x.X)
			case *ssa.Convert:
				t.copy(x, x.X)
			case *ssa.ChangeInterface:
				t.copy(x, x.X)
			case *ssa.MakeInterface:
				t.copy(x, x.X)
			case *ssa.SliceToArrayPointer:
				t.copy(x, x.X)
			case *ssa.MultiConvert:
				t.copy(x, x.X)
			case *ssa.TypeAssert:
				t.copy(x, x.X)
			case *ssa.Slice:
				t.copy(x, x.X)
			case *ssa.Extract:
				if m, ok := t.tup[x.Tuple]; ok {
					if w, ok := m[x.Index]; ok {
						t.Mark(x, w)
					}
				}
				if t.Tainted(x.Tuple) {
					// range over map: (ok, key, value)
					if nx, ok := x.Tuple.(*ssa.Next); ok && !nx.IsString && x.Index == 1 && !t.KeysAreSources {
						break
					}
					t.Mark(x, t.val[x.Tuple])
				}
			case *ssa.Next:
				t.copy(x, x.Iter)
			case *ssa.Range:
				t.copy(x, x.X)
			case *ssa.Index:
				t.copy(x, x.X)
			case *ssa.Lookup:
				t.copy(x, x.X)
			case *ssa.IndexAddr:
				t.copy(x, x.X)
			case *ssa.Field:
				t.copy(x, x.X)
				if k, _, _ := fieldKey(x.X.Type(), x.Field); k != "" {
					if w, ok := t.fields[k]; ok {
						t.Mark(x, w)
					}
					if t.SeedFields[k] {
						t.Mark(x, "source: load of "+k+" at "+t.pos(fn, x.Pos()))
					}
				}
			case *ssa.FieldAddr:
				// the address itself is tainted only if the struct value is (by-value taint)
				t.copy(x, x.X)
			case *ssa.BinOp:
				if x.Op == token.ADD {
					t.copy(x, x.X)
					t.copy(x, x.Y)
				}
			case *ssa.UnOp:
				if x.Op == token.MUL {
					switch a := x.X.(type) {
					case *ssa.FieldAddr:
						if k, _, _ := fieldKey(a.X.Type(), a.Field); k != "" {
							if w, ok := t.fields[k]; ok {
								t.Mark(x, w)
							}
							if t.SeedFields[k] {
								t.Mark(x, "source: load of "+k+" at "+t.pos(fn, x.Pos()))
							}
						}
						t.copy(x, a.X)
					case *ssa.Global:
						if w, ok := t.globs[a]; ok {
							t.Mark(x, w)
						}
					default:
						t.copy(x, x.X)
					}
				} else if x.Op == token.ARROW {
					t.copy(x, x.X)
				}
			case *ssa.Store:
				if t.Tainted(x.Val) {
					t.markStoreTarget(fn, x, x.Addr, x.Val, sinkSeen)
				}
			case *ssa.MapUpdate:
				if t.NoContainment {
					break
				}
				if t.Tainted(x.Value) {
					t.Mark(x.Map, t.describe(fn, x, "map element", x.Value))
				}
				if t.KeysAreSources && t.Tainted(x.Key) {
					t.Mark(x.Map, t.describe(fn, x, "map key", x.Key))
				}
			case *ssa.Send:
				if t.Tainted(x.X) {
					t.Mark(x.Chan, t.describe(fn, x, "sent", x.X))
				}
			case *ssa.MakeClosure:
				cf := x.Fn.(*ssa.Function)
				for i, bnd := range x.Bindings {
					if t.Tainted(bnd) && i < len(cf.FreeVars) {
						t.Mark(cf.FreeVars[i], t.describe(fn, x, "captured", bnd))
					}
				}
			case *ssa.Return:
				for k, res := range x.Results {
					if t.Tainted(res) {
						if t.ret[fn] == nil {
							t.ret[fn] = map[int]string{}
						}
						if _, ok := t.ret[fn][k]; !ok {
							t.ret[fn][k] = t.describe(fn, x, "returned from "+fn.Name(), res)
							t.changed = true
						}
					}
				}
			case ssa.CallInstruction:
				t.flowCall(fn, x)
			}
		}
	}
}

func (t *Taint) copy(dst, src ssa.Value) {
	if w, ok := t.val[src]; ok {
		t.Mark(dst, w)
	}
}

// excludedByErrorsAs: for an invoke recv.Error() in block b, the set of concrete pointer types that
// errors.As(recv, &target) has been shown NOT to match on every path to b.
func excludedByErrorsAs(fn *ssa.Function, site ssa.CallInstruction) []types.Type {
	c := site.Common()
	if !c.IsInvoke() {
		return nil
	}
	recv := c.Value
	var out []types.Type
	blk := site.Block()
	for _, b := range fn.Blocks {
		if len(b.Instrs) == 0 {
			continue
		}
		ifi, ok := b.Instrs[len(b.Instrs)-1].(*ssa.If)
		if !ok {
			continue
		}
		call, ok := ifi.Cond.(*ssa.Call)
		if !ok {
			continue
		}
		sc := call.Common().StaticCallee()
		if sc == nil || sc.Pkg == nil || sc.Pkg.Pkg.Path() != "errors" || sc.Name() != "As" || len(call.Call.Args) != 2 {
			continue
		}
		if call.Call.Args[0] != recv {
			continue
		}
		// false successor dominates the site's block
		// the false EDGE must dominate: a false successor that is also reached another way (the join
		// after `errors.As(...) && cond`) says nothing about the error's type
		if len(b.Succs) == 2 && len(b.Succs[1].Preds) == 1 && b.Succs[1].Dominates(blk) && b.Succs[1] != b.Succs[0] {
			// target: MakeInterface(**T)
			tgt := call.Call.Args[1]
			if mi, ok := tgt.(*ssa.MakeInterface); ok {
				if pt, ok := mi.X.Type().Underlying().(*types.Pointer); ok {
					out = append(out, pt.Elem())
				}
			}
		}
	}
	return out
}

func (t *Taint) flowCall(fn *ssa.Function, site ssa.CallInstruction) {
	c := site.Common()
	var resVal ssa.Value
	if v, ok := site.(*ssa.Call); ok {
		resVal = v
	}
	args := c.Args
	var allArgs []ssa.Value
	if c.IsInvoke() {
		allArgs = append(allArgs, c.Value)
	}
	allArgs = append(allArgs, args...)

	// builtins
	if b, ok := c.Value.(*ssa.Builtin); ok {
		switch b.Name() {
		case "append":
			for i, a := range args {
				if t.NoContainment && i > 0 {
					continue
				}
				if t.Tainted(a) && resVal != nil {
					t.Mark(resVal, t.describe(fn, site, "append", a))
				}
			}
		case "copy":
			if len(args) == 2 && t.Tainted(args[1]) {
				t.Mark(args[0], t.describe(fn, site, "copy", args[1]))
			}
		}
		return
	}

	// callee set
	var callees []*ssa.Function
	unknown := false
	if sc := c.StaticCallee(); sc != nil {
		callees = []*ssa.Function{sc}
	} else {
		for _, e := range t.edges[site] {
			callees = append(callees, e.Callee.Func)
		}
		if len(callees) == 0 {
			unknown = true
		}
	}
	excl := excludedByErrorsAs(fn, site)
	anyArgTainted := func() (ssa.Value, bool) {
		for _, a := range allArgs {
			if t.Tainted(a) {
				return a, true
			}
		}
		return nil, false
	}
	for _, callee := range callees {
		if callee == nil {
			continue
		}
		// errors.As refinement
		skip := false
		if len(excl) > 0 && callee.Signature.Recv() != nil {
			for _, et := range excl {
				if types.Identical(callee.Signature.Recv().Type(), et) {
					skip = true
				}
			}
		}
		if skip {
			continue
		}
		if t.Sanitizer != nil && t.Sanitizer(callee) {
			continue
		}
		if callee.Blocks != nil && SSAFuncInRepo(callee) {
			// interprocedural
			params := callee.Params
			for i, a := range allArgs {
				if t.BlockArg != nil && t.BlockArg(site, callee, i) {
					continue
				}
				if i < len(params) && t.Tainted(a) {
					t.Mark(params[i], t.describe(fn, site, "passed to "+callee.Name(), a))
				}
			}
			if m, ok := t.ret[callee]; ok && resVal != nil {
				if callee.Signature.Results().Len() == 1 {
					if w, ok := m[0]; ok {
						t.Mark(resVal, w)
					}
				} else {
					if t.tup[resVal] == nil {
						t.tup[resVal] = map[int]string{}
					}
					for k, w := range m {
						if _, ok := t.tup[resVal][k]; !ok {
							t.tup[resVal][k] = w
							t.changed = true
						}
					}
				}
			}
			continue
		}
		// library callee
		if fi, ok := isFmtFormatFunc(callee); ok && len(args) > fi+1 {
			if fc, ok := args[fi].(*ssa.Const); ok && fc.Value != nil && fc.Value.Kind() == constant.String {
				if elems, ok := variadicElems(args[fi+1]); ok {
					verbs := fmtVerbs(constant.StringVal(fc.Value))
					for i, e := range elems {
						if e == nil || !t.Tainted(e) {
							continue
						}
						if i < len(verbs) && verbs[i] == 'T' {
							continue // %T prints the type name, not the value
						}
						if resVal != nil {
							t.Mark(resVal, t.describe(fn, site, "formatted by "+callee.Name(), e))
						}
						if callee.Name() == "Fprintf" {
							t.Mark(args[0], t.describe(fn, site, "written by Fprintf", e))
						}
					}
					continue
				}
			}
		}
		t.genericCall(fn, site, callee.String(), allArgs, resVal, anyArgTainted)
	}
	if unknown {
		// a function value with no resolvable callee is a user-supplied callback: opaque (assumption)
		if _, ok := anyArgTainted(); ok {
			t.Opaque[site] = true
		}
	}
}

func isRefLike(ty types.Type) bool {
	switch ty.Underlying().(type) {
	case *types.Pointer, *types.Slice, *types.Map, *types.Interface, *types.Chan:
		return true
	}
	return false
}

// libWriters: library functions that write (some of) their arguments into another argument.
// dst/src are indices into allArgs (receiver first for methods); src -1 = every other argument.
var libWriters = map[string][2]int{
	"(*bytes.Buffer).Write": {0, 1}, "(*bytes.Buffer).WriteString": {0, 1}, "(*bytes.Buffer).WriteByte": {0, 1}, "(*bytes.Buffer).WriteRune": {0, 1},
	"(*strings.Builder).Write": {0, 1}, "(*strings.Builder).WriteString": {0, 1}, "(*strings.Builder).WriteByte": {0, 1}, "(*strings.Builder).WriteRune": {0, 1},
	"(*encoding/json.Encoder).Encode": {0, 1}, "(*encoding/json.Decoder).Decode": {1, 0},
	"encoding/json.Unmarshal": {1, 0}, "github.com/oasdiff/yaml.Unmarshal": {1, 0}, "github.com/oasdiff/yaml3.Unmarshal": {1, 0},
	"io.WriteString": {0, 1}, "(io.Writer).Write": {0, 1}, "io.Copy": {0, 1},
	"fmt.Fprint": {0, -1}, "fmt.Fprintln": {0, -1}, "fmt.Fprintf": {0, -1},
	"(*bufio.Writer).Write": {0, 1}, "(*bufio.Writer).WriteString": {0, 1},
}

func (t *Taint) genericCall(fn *ssa.Function, site ssa.CallInstruction, name string, allArgs []ssa.Value, resVal ssa.Value, anyTainted func() (ssa.Value, bool)) {
	// constructor-like library functions keep their reference arguments: New*(w) aliases w
	short := name
	if i := strings.LastIndex(short, "."); i >= 0 {
		short = short[i+1:]
	}
	if resVal != nil && isRefLike(resVal.Type()) && strings.HasPrefix(short, "New") {
		for _, a := range allArgs {
			if isRefLike(a.Type()) {
				t.addAlias(resVal, a)
			}
		}
	}
	if w, ok := libWriters[name]; ok && w[0] < len(allArgs) {
		for i, a := range allArgs {
			if i == w[0] || (w[1] >= 0 && i != w[1]) {
				continue
			}
			if t.Tainted(a) {
				why := t.describe(fn, site, "written by "+name, a)
				t.Mark(allArgs[w[0]], why)
			}
		}
	}
	if t.AliasMode {
		return
	}
	if a, ok := anyTainted(); ok {
		why := t.describe(fn, site, "through "+name, a)
		if resVal != nil {
			t.Mark(resVal, why)
		}
	}
}

func (t *Taint) addAlias(a, b ssa.Value) {
	for _, x := range t.alias[a] {
		if x == b {
			return
		}
	}
	t.alias[a] = append(t.alias[a], b)
	t.alias[b] = append(t.alias[b], a)
	if w, ok := t.val[a]; ok {
		t.Mark(b, w)
	}
	if w, ok := t.val[b]; ok {
		t.Mark(a, w)
	}
}

// TaintedCount returns the number of tainted SSA values.
func (t *Taint) TaintedCount() int { return len(t.val) }

// FieldTaints lists tainted fields.
func (t *Taint) FieldTaints() []string {
	var out []string
	for k := range t.fields {
		out = append(out, k)
	}
	sort.Strings(out)
	return out
}
