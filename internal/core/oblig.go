package core

import (
	"crypto/sha256"
	"encoding/hex"
	"encoding/json"
	"fmt"
	"io"
	"os"
	"path/filepath"
	"sort"
	"strings"
	"time"
)

// Status of an obligation.
type Status int

const (
	Discharged Status = iota
	Violated
	UndecidedSt
)

func (s Status) String() string { return [...]string{"discharged", "violated", "undecided"}[s] }

// Obligation is one unit of a rule's verdict, keyed symbolically (never by line).
type Obligation struct {
	Rule       string `json:"rule"`
	Key        string `json:"key"`
	Status     string `json:"status"`
	Pos        string `json:"pos,omitempty"`
	Detail     string `json:"detail,omitempty"`
	NonTrivial bool   `json:"nontrivial"`
}

// RuleInfo documents a rule in the evidence.
type RuleInfo struct {
	ID        string `json:"id"`
	Text      string `json:"text"`
	Floor     int    `json:"floor"`
	Instances int    `json:"instances"`
}

// Report collects obligations for one property.
type Report struct {
	Property string
	Tier     string
	Prog     *Prog
	Rules    []*RuleInfo
	Obs      []Obligation
	Assume   []string
	Extra    map[string]any
	cur      *RuleInfo
}

// NewReport makes an empty report.
func NewReport(prop, tier string, p *Prog) *Report {
	return &Report{Property: prop, Tier: tier, Prog: p, Extra: map[string]any{}}
}

// Rule opens a rule; obligations added afterwards belong to it. floor is the minimum number of
// instances (obligations) the rule must produce.
func (r *Report) Rule(id, text string, floor int) {
	r.cur = &RuleInfo{ID: id, Text: text, Floor: floor}
	r.Rules = append(r.Rules, r.cur)
}

func (r *Report) add(st Status, key, pos, detail string, nontrivial bool) {
	if r.cur == nil {
		panic("obligation outside rule")
	}
	r.cur.Instances++
	r.Obs = append(r.Obs, Obligation{Rule: r.cur.ID, Key: key, Status: st.String(), Pos: pos, Detail: detail, NonTrivial: nontrivial})
}

// OK records a discharged obligation that needed a non-trivial argument.
func (r *Report) OK(key, pos, detail string) { r.add(Discharged, key, pos, detail, true) }

// Trivial records a discharged obligation that needed no argument (no such construct).
func (r *Report) Trivial(key, pos, detail string) { r.add(Discharged, key, pos, detail, false) }

// Bad records a violated obligation.
func (r *Report) Bad(key, pos, detail string) { r.add(Violated, key, pos, detail, true) }

// Unknown records an undecided obligation (fails the check).
func (r *Report) Unknown(key, pos, detail string) { r.add(UndecidedSt, key, pos, detail, true) }

// Check records OK or Bad depending on cond.
func (r *Report) Check(cond bool, key, pos, okDetail, badDetail string) {
	if cond {
		r.OK(key, pos, okDetail)
	} else {
		r.Bad(key, pos, badDetail)
	}
}

// Assumption records an assumption for the evidence file.
func (r *Report) Assumption(s string) { r.Assume = append(r.Assume, s) }

// RunRule runs fn, converting an Undecided panic (or any panic) into an undecided obligation.
func (r *Report) RunRule(id, text string, floor int, fn func()) {
	r.Rule(id, text, floor)
	defer func() {
		if e := recover(); e != nil {
			msg := fmt.Sprint(e)
			if u, ok := e.(Undecided); ok {
				msg = u.Msg
			} else {
				msg = "analysis panic: " + msg
				if os.Getenv("KINLINT_TRACE") != "" {
					panic(e)
				}
			}
			r.Unknown("anchor", "-", msg)
		}
	}()
	fn()
}

// Finding is an entry of known_findings.json.
type Finding struct {
	Property string `json:"property"`
	Rule     string `json:"rule"`
	Key      string `json:"key"`
	Status   string `json:"status"` // "open" or "fixed"
	Commit   string `json:"commit,omitempty"`
	What     string `json:"what"`
	Input    string `json:"failing_input,omitempty"`
}

// LoadFindings reads the known-findings file (read-only at run time).
func LoadFindings(path string) ([]Finding, error) {
	b, err := os.ReadFile(path)
	if err != nil {
		if os.IsNotExist(err) {
			return nil, nil
		}
		return nil, err
	}
	var f struct {
		Findings []Finding `json:"findings"`
	}
	if err := json.Unmarshal(b, &f); err != nil {
		return nil, err
	}
	return f.Findings, nil
}

// TreeHash hashes the non-test Go sources of the analysed directory.
func TreeHash(dir string) string {
	h := sha256.New()
	var files []string
	filepath.Walk(dir, func(path string, info os.FileInfo, err error) error {
		if err != nil {
			return nil
		}
		if info.IsDir() {
			if info.Name() == ".git" || info.Name() == "testdata" {
				return filepath.SkipDir
			}
			return nil
		}
		if strings.HasSuffix(path, ".go") && !strings.HasSuffix(path, "_test.go") {
			files = append(files, path)
		}
		return nil
	})
	sort.Strings(files)
	for _, f := range files {
		rel, _ := filepath.Rel(dir, f)
		io.WriteString(h, rel+"\x00")
		if fh, err := os.Open(f); err == nil {
			io.Copy(h, fh)
			fh.Close()
		}
	}
	return hex.EncodeToString(h.Sum(nil))[:16]
}

// Finish evaluates floors, matches known findings, writes evidence and the replay file, prints the
// verdict lines and returns the process exit code.
func (r *Report) Finish(verifDir string, start time.Time, seed int64, extraViolations []Obligation) int {
	findings, ferr := LoadFindings(filepath.Join(verifDir, "known_findings.json"))
	// floors
	for _, ri := range r.Rules {
		if ri.Instances < ri.Floor {
			r.Obs = append(r.Obs, Obligation{Rule: ri.ID, Key: "floor", Status: UndecidedSt.String(), Pos: "-",
				Detail: fmt.Sprintf("rule matched %d instances, floor is %d: the rule no longer sees the constructs it was confirmed on", ri.Instances, ri.Floor), NonTrivial: true})
		}
	}
	if ferr != nil {
		r.Obs = append(r.Obs, Obligation{Rule: "core", Key: "known_findings", Status: UndecidedSt.String(), Detail: ferr.Error()})
	}
	r.Obs = append(r.Obs, extraViolations...)
	open := map[string]Finding{}
	for _, f := range findings {
		if f.Property == r.Property && f.Status == "open" {
			open[f.Rule+"/"+f.Key] = f
		}
	}
	var viol, undec, known []Obligation
	discharged, nontriv := 0, map[string]bool{}
	for _, o := range r.Obs {
		if o.NonTrivial {
			nontriv[o.Rule+"/"+o.Key] = true
		}
		switch o.Status {
		case "discharged":
			discharged++
		case "violated":
			if _, ok := open[o.Rule+"/"+o.Key]; ok {
				known = append(known, o)
			} else {
				viol = append(viol, o)
			}
		default:
			undec = append(undec, o)
		}
	}
	// samples: up to 8 obligations spread over rules
	var samples []Obligation
	perRule := map[string]int{}
	for _, o := range r.Obs {
		if perRule[o.Rule] < 2 && len(samples) < 14 && o.NonTrivial {
			perRule[o.Rule]++
			samples = append(samples, o)
		}
	}
	if len(samples) == 0 && len(r.Obs) > 0 {
		samples = r.Obs[:1]
	}
	var expl []string
	for _, ri := range r.Rules {
		expl = append(expl, fmt.Sprintf("[%s] %s (instances=%d, floor=%d)", ri.ID, ri.Text, ri.Instances, ri.Floor))
	}
	knownKeys := []string{}
	for _, o := range known {
		knownKeys = append(knownKeys, o.Rule+"/"+o.Key)
	}
	cov := map[string]any{
		"explanation":         "Static analysis of /repo's current working tree (go/packages + go/types + go/ssa, no code executed). Rules: " + strings.Join(expl, " || "),
		"obligations":         len(r.Obs),
		"discharged":          discharged + len(known)*0,
		"evaluations":         len(r.Obs),
		"distinct_nontrivial": len(nontriv),
		"rule":                "one obligation per (rule, symbolic construct) enumerated from the type-checked program; non-trivial = needed a guard, dominance, provenance or table-agreement argument (not 'no such construct')",
		"samples":             samples,
		"rules":               r.Rules,
		"known_findings":      knownKeys,
		"violated":            len(viol),
		"undecided":           len(undec),
		"packages":            len(r.Prog.Pkgs),
		"functions":           r.Prog.NFuncs,
		"tree_hash":           TreeHash(r.Prog.Dir),
		"analysed_dir":        r.Prog.Dir,
		"checker_cmd":         fmt.Sprintf("./check %s %s", r.Property, r.Tier),
		"trusted_base":        []string{"go/types", "go/ssa", "x/tools v0.29.0 callgraph/vta", "the rule tables in /verif/internal/rules"},
	}
	for k, v := range r.Extra {
		cov[k] = v
	}
	ev := map[string]any{
		"property_id": r.Property,
		"tier":        r.Tier,
		"seed":        seed,
		"level":       "other",
		"coverage":    cov,
		"assumptions": append([]string{"go/types and go/ssa model the compiled program faithfully", "only non-test, non-ignored files of ./... for the host GOOS are analysed"}, r.Assume...),
		"wall_s":      time.Since(start).Seconds(),
		"violations":  len(viol) + len(undec),
	}
	os.MkdirAll(filepath.Join(verifDir, "evidence"), 0o755)
	b, _ := json.MarshalIndent(ev, "", " ")
	if err := os.WriteFile(filepath.Join(verifDir, "evidence", r.Property+".json"), b, 0o644); err != nil {
		fmt.Println("cannot write evidence:", err)
		return 2
	}
	for _, ri := range r.Rules {
		fmt.Printf("rule %-14s instances=%-4d floor=%d\n", ri.ID, ri.Instances, ri.Floor)
	}
	fmt.Printf("property=%s tier=%s obligations=%d discharged=%d known=%d violated=%d undecided=%d\n",
		r.Property, r.Tier, len(r.Obs), discharged, len(known), len(viol), len(undec))
	for _, o := range known {
		f := open[o.Rule+"/"+o.Key]
		fmt.Printf("KNOWN-FINDING: property=%s %s/%s at %s: %s\n", r.Property, o.Rule, o.Key, o.Pos, f.What)
	}
	if len(viol)+len(undec) == 0 {
		return 0
	}
	bad := append(viol, undec...)
	for _, o := range bad {
		fmt.Printf("  %s %s/%s at %s: %s\n", strings.ToUpper(o.Status), o.Rule, o.Key, o.Pos, o.Detail)
	}
	os.MkdirAll(filepath.Join(verifDir, "replay"), 0o755)
	rp := filepath.Join(verifDir, "replay", fmt.Sprintf("%s-%s.json", r.Property, r.Tier))
	rb, _ := json.MarshalIndent(bad, "", " ")
	os.WriteFile(rp, rb, 0o644)
	fmt.Printf("VIOLATION property=%s replay=%s\n", r.Property, rp)
	return 1
}
