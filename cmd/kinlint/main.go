// kinlint decides structural necessary conditions of properties C01..C20 of getkin/kin-openapi by
// static analysis of the repository's current working tree. Nothing from the repository is executed.
package main

import (
	"flag"
	"fmt"
	"os"
	"path/filepath"
	"strconv"
	"time"

	"verif/internal/core"
	"verif/internal/rules"
)

func main() {
	prop := flag.String("property", "", "property id (C01..C20)")
	tier := flag.String("tier", "quick", "quick|thorough")
	dir := flag.String("dir", "/repo", "directory of the repository to analyse")
	verif := flag.String("verif", "", "verif directory (evidence, known findings); default: parent of the binary's dir")
	goarch := flag.String("goarch", "", "override GOARCH for loading")
	noEvidence := flag.Bool("no-evidence", false, "do not write evidence (used for mutant runs)")
	list := flag.Bool("list", false, "list implemented properties")
	flag.Parse()
	if *list {
		for _, id := range rules.IDs() {
			fmt.Println(id)
		}
		return
	}
	start := time.Now()
	vd := *verif
	if vd == "" {
		exe, _ := os.Executable()
		vd = filepath.Dir(filepath.Dir(exe))
	}
	fn := rules.Lookup(*prop)
	if fn == nil {
		fmt.Printf("unknown property %q\n", *prop)
		os.Exit(2)
	}
	seed := int64(0)
	if s := os.Getenv("VERIF_SEED"); s != "" {
		seed, _ = strconv.ParseInt(s, 10, 64)
	}
	p, err := core.Load(*dir, *goarch)
	if err != nil {
		// a tree that does not load is undecided, which fails the check
		fmt.Printf("load failed: %v\n", err)
		rp := filepath.Join(vd, "replay", fmt.Sprintf("%s-%s.json", *prop, *tier))
		os.MkdirAll(filepath.Dir(rp), 0o755)
		os.WriteFile(rp, []byte(fmt.Sprintf("[{\"rule\":\"core\",\"key\":\"load\",\"status\":\"undecided\",\"detail\":%q}]", err.Error())), 0o644)
		fmt.Printf("VIOLATION property=%s replay=%s\n", *prop, rp)
		os.Exit(1)
	}
	r := core.NewReport(*prop, *tier, p)
	fn(r)
	if *noEvidence {
		vd2, _ := os.MkdirTemp("", "kinlint-ev")
		defer os.RemoveAll(vd2)
		// known findings still come from the real verif dir
		if b, err := os.ReadFile(filepath.Join(vd, "known_findings.json")); err == nil {
			os.WriteFile(filepath.Join(vd2, "known_findings.json"), b, 0o644)
		}
		code := r.Finish(vd2, start, seed, nil)
		os.RemoveAll(vd2)
		os.Exit(code)
	}
	os.Exit(r.Finish(vd, start, seed, nil))
}
